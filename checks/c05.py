#!/venv/bin/python
"""C05 - see checks/tops_common.py."""
import os
import sys

sys.path.insert(0, os.path.dirname(os.path.dirname(os.path.abspath(__file__))))
sys.path.insert(0, os.path.dirname(os.path.abspath(__file__)))
from lib.check import main  # noqa: E402
import tops_common  # noqa: E402

main("C05", lambda c: tops_common.body(c, "C05"))
