#!/venv/bin/python
"""C04 - sub-byte packing is lossless, dense and identical across unpack kernels."""
import copy
import os
import sys

sys.path.insert(0, os.path.dirname(os.path.dirname(os.path.abspath(__file__))))
from lib.check import main  # noqa: E402
from lib.tlc import MachineryError  # noqa: E402


def body(c):
    maxrows = 17 if c.quick else 67
    mc_cfg = os.path.join(c.wd, "MC_Pack.cfg")
    with open(mc_cfg, "w") as f:
        f.write(f"""INIT Init
NEXT Next
CONSTANTS
  MaxRows = {maxrows}
  Trails = {{1, 3, 6}}
  Codings <- MCCodings
INVARIANT Dense
INVARIANT BytesOK
INVARIANT RoundTrip
INVARIANT KernelsAgree
INVARIANT AllBytesCovered
CHECK_DEADLOCK FALSE
""")
    c.mc("Pack", mc_cfg, require_actions=["DoPack", "DoUnpackPy", "DoUnpackCpp"])
    gen_cfg = os.path.join(c.wd, "Gen_Pack.cfg")
    with open(gen_cfg, "w") as f:
        f.write(open(mc_cfg).read().replace("INVARIANT Dense", "INVARIANT EmitCase\nINVARIANT Dense"))
    cases = c.gen("Pack", gen_cfg)
    if len(cases) < 2 * maxrows * 3 * 3:
        raise MachineryError(f"only {len(cases)} cases generated")
    out = c.harness("h_pack.py", {"cases": cases, "random": 150 if c.quick else 1500, "random_bytes": 40 if c.quick else 400,
                                   "seed": c.seed, "maxrows": 40 if c.quick else 130})
    scen = out["scenarios"]
    c.extra["ext_kernel_built"] = out["ext_ok"]
    c.extra["routes_exercised"] = out["routes"]
    if not out["ext_ok"]:
        c.notes.append("C++ extension could not be built: ext routes not exercised (" + out["ext_msg"] + ")")
    tc = {"MaxRows": 0, "Trails": "{}", "Codings": "{}"}
    scen = c.screen(scen, "Trace_Pack", chunk=120, constants=tc)
    res = c.validate("Trace_Pack", scen, chunk=120, constants=tc)
    c.judge(scen, res, describe=lambda tr: {k: tr[0].get(k) for k in ("act", "bits", "rows", "trail", "tshape")})
    c.extra["tlc_cases_replayed"] = len(cases)
    c.extra["payload_equal_to_tlc_prediction"] = sum(1 for s in scen if len(s) > 1 and s[1].get("tlc_payload_equal"))
    c.extra["exhaustive"] = True
    c.add_samples([{"scenario": [{k: (v if not isinstance(v, list) or len(v) < 24 else v[:24] + ["..."]) for k, v in e.items()}
                                 for e in s[:4]]} for s in scen[5:7]])
    # negative controls: the binding must reject corrupted observations
    base = next(s for s in scen if s[0]["act"] == "Start" and s[0]["rows"] >= 5)
    n1 = copy.deepcopy(base)
    n1[2]["out"][3] = (n1[2]["out"][3] + 1) % (2 ** n1[0]["bits"])       # corrupted unpack result
    n2 = copy.deepcopy(base)
    n2[1]["prow"] += 1                                                   # not dense
    n2[1]["payload"] = n2[1]["payload"] + [0] * n2[0]["trail"]
    n3 = copy.deepcopy(base)
    last = [e for e in n3 if e["act"] == "Unpack"][-1]
    last["out"][0] = (last["out"][0] + 1) % (2 ** n3[0]["bits"])         # one route disagrees
    n4 = copy.deepcopy(base)
    del n4[1]                                                             # dropped event
    c.negative_controls("Trace_Pack", [("corrupt-unpack", n1), ("not-dense", n2), ("route-disagrees", n3), ("dropped-pack", n4)], constants=tc)
    c.assumptions += ["values fit in `bits` (precondition of the statement)",
                      "TLC, SANY, CommunityModules Json; Python only builds tensors and flattens results"]


main("C04", body)
