"""Shared body of the C05 / C06 checks (TensorOps.tla + Trace_TensorOps.tla)."""
import copy
import os
import random

from lib.tlc import MachineryError

MODEL_DEVS = ["Dev_C06_SplitStaleSize", "Dev_C05_StackFallback", "Dev_C05_T1D", "Dev_C05_WhereOther", "Dev_C05_LtFloat8", "Dev_C05_CopyPlain"]
TRACE_DEVS = MODEL_DEVS + ["Dev_C05_DivTensor", "Dev_C05_NegMin", "Dev_C07_IntMMK1", "Dev_C07_F16Float8Act"]


def cfg(c, name, depth, devs, invs, view=True, extra=""):
    p = os.path.join(c.wd, name)
    with open(p, "w") as f:
        f.write("INIT Init\nNEXT Next\nCONSTANTS\n  MaxDepth = %d\n" % depth
                + "".join("  %s = %s\n" % (d, "TRUE" if devs.get(d) else "FALSE") for d in MODEL_DEVS)
                + "".join(f"INVARIANT {i}\n" for i in invs) + ("VIEW View\n" if view else "") + extra + "CHECK_DEADLOCK FALSE\n")
    return p


def body(c, judge):
    devs = c.dev_constants(TRACE_DEVS)
    off = {d: False for d in MODEL_DEVS}
    c.mc("TensorOps", cfg(c, "MC_TensorOps.cfg", 3 if c.quick else 4, off, ["WellFormed", "NoSpuriousRaise"]), require_actions=["Next"])
    # each deviation of the pinned tree makes the model itself violate the abstract layer
    for d, inv in [("Dev_C06_SplitStaleSize", "WellFormed"), ("Dev_C05_StackFallback", "NoSpuriousRaise"), ("Dev_C05_T1D", "NoSpuriousRaise"),
                   ("Dev_C05_WhereOther", "NoSpuriousRaise"), ("Dev_C05_LtFloat8", "NoSpuriousRaise"), ("Dev_C05_CopyPlain", "NoSpuriousRaise")]:
        if (judge == "C06") != (d.startswith("Dev_C06")):
            continue
        on = dict(off)
        on[d] = True
        c.mc_expect_violation("TensorOps", cfg(c, f"MC_{d}.cfg", 2, on, [inv]), inv)
    model_devs = {d: devs[d] for d in MODEL_DEVS}
    sk1 = c.gen("TensorOps", cfg(c, "Gen1.cfg", 1, model_devs, ["Emit"], view=False))
    sk2 = c.gen("TensorOps", cfg(c, "Gen2.cfg", 2, model_devs, ["Emit"], view=False), timeout=1200)
    rnd = random.Random(c.seed)
    n2 = len(sk2)
    # thorough: all programs of length 2 in float32 would be several hundred thousand runs x 3 dtypes: a sample of 60 000 (seeded)
    sk2 = rnd.sample(sk2, min(len(sk2), 2500 if c.quick else 60000))
    sim = c.gen("TensorOps", cfg(c, "GenSim.cfg", 7, model_devs, ["Emit"], view=False), simulate=400 if c.quick else 6000, depth=8, seed=c.seed + 1)
    nsim = len(sim)
    sim = rnd.sample(sim, min(len(sim), 500 if c.quick else 8000))
    if len(sk1) < 500 or len(sk2) < 2000 or len(sim) < 100:
        raise MachineryError(f"too few skeletons {len(sk1)} {len(sk2)} {len(sim)}")
    sks = sk1 + sk2 + sim
    dtypes = ["float32"] if c.quick else ["float32", "float16", "bfloat16"]
    tr = c.harness("h_tops.py", {"skeletons": sks, "dtypes": dtypes}, timeout=3000 if c.quick else 9000)["traces"]
    consts = {"MaxDepth": 0, "Judge": '"%s"' % judge}
    consts.update({d: ("TRUE" if devs[d] else "FALSE") for d in TRACE_DEVS})
    res = c.validate("Trace_TensorOps", tr, chunk=250, constants=consts)
    c.judge(tr, res, describe=lambda t: {"init": t[0]["init"], "prog": t[0].get("prog") or [e["o"] for e in t[1:]]})
    ops = {}
    steps = 0
    raised = 0
    for t in tr:
        for e in t[1:]:
            ops[e["op"]] = ops.get(e["op"], 0) + 1
            steps += 1
            if e.get("outcome") != "value":
                raised += 1
    c.extra.update({"programs": len(tr), "steps": steps, "ops_exercised": ops, "steps_raising": raised,
                    "depth1_programs": len(sk1), "depth2_programs": len(sk2), "depth2_programs_generated": n2,
                    "simulated_programs": len(sim), "simulated_programs_generated": nsim,
                    "max_program_length": max(len(t) - 1 for t in tr), "dtypes": dtypes})
    c.add_samples([{"init": t[0]["init"], "steps": [{"o": e["o"], "outcome": e.get("outcome"), "after": {k: e.get("after", {}).get(k) for k in ("kind", "qt", "axis", "shape")}} for e in t[1:]]}
                   for t in (tr[10], tr[len(sk1) + 7], tr[-1])])
    # negative controls
    def find(pred):
        for t in tr:
            for i, e in enumerate(t[1:], 1):
                if e.get("outcome") == "value" and pred(e):
                    return copy.deepcopy(t[:i + 1]), i
        raise MachineryError("no step for negative control")
    ctrls = []
    if judge == "C05":
        # (whether an operation keeps its result quantized is the as-built layer: the controls take whatever kind it returned)
        t, i = find(lambda e: e["op"] == "transpose" and len(e.get("dq", [])) > 2)
        t[i]["dq"][0], t[i]["dq"][1] = t[i]["dq"][1], {"s": 1, "m": [5, 5, 5]}
        ctrls.append(("value-differs", t))
        t, i = find(lambda e: e["op"] == "view")
        t[i]["outcome"] = "RuntimeError"
        ctrls.append(("spurious-raise", t))
        t, i = find(lambda e: e["op"] == "mul" and len(e.get("dq", [])) > 0)
        t[i]["dq"][0] = {"s": 1, "m": [0, 0, 0, 0, 0, 0, 7]}
        ctrls.append(("rescale-off", t))
    else:
        # (an operation that never returns a quantized value on this tree is C05's business - it raises or falls back -;
        #  the control built on it is then skipped, at least two controls must remain)
        def control(name, pred, corrupt):
            try:
                t, i = find(pred)
            except MachineryError:
                c.notes.append(f"negative control {name} skipped: no such step returned a quantized value")
                return
            corrupt(t[i])
            ctrls.append((name, t))
        control("stale-shape", lambda e: e["op"] == "slice" and e["after"]["kind"] == "QBytes",
                lambda e: e["after"].__setitem__("shape", e["before"]["shape"]))
        control("payload-converted", lambda e: e["op"] == "to" and e["after"]["kind"] == "QBytes",
                lambda e: e["after"].__setitem__("pdtype", "float16"))
        control("codes-altered", lambda e: e["op"] == "clone" and e["after"]["kind"] == "QBytes" and len(e["after"]["codes"]) > 1,
                lambda e: e["after"]["codes"].__setitem__(0, [1, 99]))
        control("axis-not-flipped", lambda e: e["op"] == "t" and e["after"]["kind"] == "QBytes" and e["after"]["axis"] != "none",
                lambda e: e["after"].__setitem__("axis", "first" if e["after"]["axis"] == "last" else "last"))
        # two controls that do not depend on any operation returning a quantized tensor: the projection of the INITIAL tensor
        for name, field, bad in (("initial-qtype-misreported", "qt", "qint2"), ("initial-shape-misreported", "shape", [9, 9])):
            t = copy.deepcopy(next(t for t in tr if t[0].get("act") == "Init" and t[0]["proj"]["kind"] == "QBytes")[:1])
            t[0]["proj"][field] = bad
            ctrls.append((name, t))
    c.negative_controls("Trace_TensorOps", ctrls, constants=consts)
    c.assumptions += ["Deq(result) is quanto's own dequantize(), whose correctness is the subject of C01/C02",
                      "operands of where() stay inside the input's quantization range; lattice operand values",
                      "mm / bmm / linear are judged by C07"]
