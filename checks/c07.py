#!/venv/bin/python
"""C07 - quantized matmul/linear kernels compute scale-corrected products on every path."""
import copy
import os
import random
import sys

sys.path.insert(0, os.path.dirname(os.path.dirname(os.path.abspath(__file__))))
from lib.check import main  # noqa: E402
from lib.tlc import MachineryError  # noqa: E402

DEVS = ["Dev_C07_F16Float8Act", "Dev_C07_Int8PackCrash", "Dev_C07_StridedView", "Dev_C07_IntMMK1"]
INV = ["RouteTotal", "IntMMOnlyInt8Pair", "PackOnlyBf16", "LowBitFallsBack", "NoIntermediateOverflow"]


def body(c):
    devs = c.dev_constants(DEVS)
    sizes = "MCSizes" if c.quick else "MCSizesT"

    def cfg(name, dev, invs):
        p = os.path.join(c.wd, name)
        open(p, "w").write("INIT Init\nNEXT Next\nCONSTANTS\n  Sizes <- %s\n  Dev_C07_F16Float8 = %s\n" % (sizes, "TRUE" if dev else "FALSE")
                           + "".join(f"INVARIANT {i}\n" for i in invs) + "CHECK_DEADLOCK FALSE\n")
        return p
    c.mc("MatMul", cfg("MC_MatMul.cfg", False, INV), require_actions=["DoRoute"])
    # contracting float8 x float8 codes in float16 (what the pinned tree does) leaves the finite range in the model itself
    c.mc_expect_violation("MatMul", cfg("MC_MatMul_dev.cfg", True, ["NoIntermediateOverflow"]), "NoIntermediateOverflow")
    cases = c.gen("MatMul", cfg("Gen_MatMul.cfg", False, ["Emit"]))
    if len(cases) < 1500:
        raise MachineryError(f"only {len(cases)} configurations")
    total = len(cases)
    if c.quick:
        rnd = random.Random(c.seed)
        k1 = [x for x in cases if x["cfg"]["K"] == 1]
        cases = rnd.sample(cases, 700) + rnd.sample(k1, min(len(k1), 60))
    tr = c.harness("h_mm.py", {"cases": cases}, timeout=3000)["traces"]
    consts = {"Sizes": "{}", "Dev_C07_F16Float8": "FALSE"}
    consts.update({d: ("TRUE" if devs[d] else "FALSE") for d in DEVS})
    res = c.validate("Trace_MatMul", tr, chunk=60, constants=consts, timeout=1200)
    c.judge(tr, res, describe=lambda t: {"cfg": t[0]["cfg"], "kind": t[0]["kind"], "contiguous": t[0]["contiguous"], "outcome": t[0]["outcome"]})
    routes = {}
    for t in tr:
        routes[t[0]["route_seen"]] = routes.get(t[0]["route_seen"], 0) + 1
    c.extra.update({"configurations_in_model": total, "configurations_replayed": len(cases), "calls": len(tr), "routes_exercised": routes,
                    "lowbit_scales_exact": sum(1 for t in tr if t[0].get("lowbit_scale_exact")),
                    "families": sorted({t[0]["cfg"]["fam"] for t in tr})})
    kinds = {}
    for t in tr:
        kinds[t[0]["kind"]] = kinds.get(t[0]["kind"], 0) + 1
    c.extra["calls_by_kind"] = kinds
    for need in ("linear", "matmul", "bmm", "bmm_plain"):
        if not kinds.get(need):
            raise MachineryError(f"vacuity: no {need} call")
    for need in ("int_mm", "default", "float_matmul"):
        if not routes.get(need):
            raise MachineryError(f"vacuity: route {need} never observed")
    c.add_samples([{k: (v if k != "out" else v[:4]) for k, v in t[0].items()} for t in (tr[0], tr[len(tr) // 2])])
    ok = copy.deepcopy(next(t for t in tr if t[0]["outcome"] == "value" and t[0]["cfg"]["dtype"] == "float32" and t[0]["cfg"]["N"] >= 5
                            and t[0]["cfg"]["act"] == "qint8" and any(o["s"] != 0 for o in t[0]["out"])))
    n1 = copy.deepcopy(ok)
    i = next(k for k, o in enumerate(n1[0]["out"]) if o["s"] != 0)
    n1[0]["out"][i]["m"] = n1[0]["out"][i]["m"] + [3]
    n2 = copy.deepcopy(ok); n2[0]["out_dtype"] = "float16"
    n3 = copy.deepcopy(ok); n3[0]["out_shape"] = [1] + n3[0]["out_shape"]
    n4 = copy.deepcopy(ok); n4[0]["out"][0] = {"s": 2, "m": []}
    c.negative_controls("Trace_MatMul", [("wrong-value", n1), ("wrong-dtype", n2), ("wrong-shape", n3), ("nonfinite", n4)], constants=consts)
    c.assumptions += ["CPU routes only (CUDA / MPS selection logic is in the model but not executed)",
                      "operand families with power-of-two scales; realistic magnitudes enter through the `sat` family (int8 codes at +-127/-128)"]


main("C07", body)
