#!/venv/bin/python
"""C02 - int2/int4 affine quantization error is at most half a step per group."""
import copy
import os
import sys

sys.path.insert(0, os.path.dirname(os.path.dirname(os.path.abspath(__file__))))
from lib.check import main  # noqa: E402
from lib.tlc import MachineryError  # noqa: E402

INV = ["HalfStepPerGroup", "StepBound", "ZpFits", "CodesFit", "RequantIdempotentAffine", "NonSaturating",
       "UngroupInvertsGroup", "GroupIsPerAxis", "GroupCountOK", "LatticeScaleExact"]
DEVS = ["Dev_C16_AbsmaxOverflow", "Dev_C16_F8ZeroScale", "Dev_C02_NoZeroHull"]


def qaff_cfg(c, name, nozero, invs, glen):
    p = os.path.join(c.wd, name)
    with open(p, "w") as f:
        f.write("INIT Init\nNEXT Next\nCONSTANTS\n  NoZeroHull = %s\n  Points <- MCPoints\n  GroupLen = %d\n  GShapes <- MCGShapes\n"
                % ("TRUE" if nozero else "FALSE", glen) + "".join(f"INVARIANT {i}\n" for i in invs) + "CHECK_DEADLOCK FALSE\n")
    return p


def body(c):
    devs = c.dev_constants(DEVS)
    glen = 3 if c.quick else 4
    c.mc("QAff", qaff_cfg(c, "MC_QAff.cfg", False, INV, glen), workers=12,
         require_actions=["Reduce", "ScaleZp", "Quantize", "Dequant", "DoGroup"])
    # the as-pinned design (range without zero, 8-bit zero-point) violates the half-step bound in the model itself
    c.mc_expect_violation("QAff", qaff_cfg(c, "MC_QAff_dev.cfg", True, ["HalfStepPerGroup"], 3), "HalfStepPerGroup")
    cases = c.gen("QAff", qaff_cfg(c, "Gen_QAff.cfg", False, ["EmitGrp"], 1))
    lat = [x for x in cases if x["mode"] == "lat"]
    grp = [x for x in cases if x["mode"] == "grp"]
    if len(lat) < 300 or len(grp) < 20:
        raise MachineryError(f"too few cases {len(lat)} {len(grp)}")
    out = c.harness("h_qaff.py", {"lat": lat, "grp": grp})
    traces = c.screen(out["traces"], "Trace_QAff", chunk=20, constants={"NoZeroHull": "FALSE", "Points": "{}", "GroupLen": 0, "GShapes": "{}"})
    res = c.validate("Trace_QAff", traces, chunk=20,
                     constants={"NoZeroHull": "FALSE", "Points": "{}", "GroupLen": 0, "GShapes": "{}"})
    c.judge(traces, res, describe=lambda tr: {k: tr[0].get(k) for k in ("bits", "fmt", "k", "shape", "axis", "gs")})
    c.extra["lattice_groups"] = len(lat)
    c.extra["grouping_cases"] = len(grp)
    c.extra["lattice_tensors"] = len(traces)
    c.extra["lattice_equal_to_as_built_prediction"] = sum(1 for t in traces if t[0].get("tlc_equal"))
    # wide domain
    wide = out["wide"] + c.harness("h_qnum.py", {"mode": "aff", "seed": c.seed, "reps": 1 if c.quick else 20, "max_gs": 2 if c.quick else 5})["traces"]
    wide = c.screen(wide, "Trace_QNum", chunk=16, constants=devs)
    wres = c.validate("Trace_QNum", wide, chunk=16, constants=devs)
    c.judge(wide, wres, describe=lambda tr: {k: tr[0].get(k) for k in ("bits", "fmt", "shape", "axis", "gs", "tag")})
    rec = [t for t in c.record_repo_tests(["test/tensor/quantizers", "test/nn/test_qlinear.py"] if c.quick else ["test"], limit=250 if c.quick else 1500)
           if t[0]["act"] == "AffW"]
    rres = c.validate("Trace_QNum", rec, chunk=16, constants=devs)
    c.judge(rec, rres, describe=lambda tr: {k: tr[0].get(k) for k in ("bits", "fmt", "shape", "axis", "gs", "tag", "test")})
    c.extra["repo_tests_recorded"]["affine_quantizer_calls_validated"] = len(rec)
    c.extra["wide_tensors"] = len(wide)
    c.extra["lattice_fallbacks_to_wide"] = len(out["wide"])
    c.extra["wide_groups"] = sum(len(t[0]["groups"]) for t in wide)
    c.extra["wide_classes"] = sorted({cl for t in wide for cl in (t[0].get("tag") or "").split(",")})
    c.add_samples([{k: v for k, v in traces[0][0].items() if k != "groups"} | {"groups": traces[0][0]["groups"][:2]}])
    c.add_samples([{k: v for k, v in wide[3][0].items() if k != "groups"} | {"n_groups": len(wide[3][0]["groups"])}])
    # negative controls
    b = copy.deepcopy(next(t for t in traces if t[0]["bits"] == 4))
    n1 = copy.deepcopy(b); n1[0]["groups"][0]["dq"][1] += 9            # more than two steps off (quarter units), whatever the original error was
    n2 = copy.deepcopy(b); n2[0]["out_shape"] = n2[0]["out_shape"][::-1] + [1]
    n3 = copy.deepcopy(b); n3[0]["payload_equal"] = False; n3[0]["fmt"] = "float32"; n3[0]["out_dtype"] = "float32"; n3[0]["scale_dtype"] = "float32"
    c.negative_controls("Trace_QAff", [("dq-off", n1), ("shape-not-restored", n2), ("not-idempotent", n3)],
                        constants={"NoZeroHull": "FALSE", "Points": "{}", "GroupLen": 0, "GShapes": "{}"})
    w = copy.deepcopy(next(t for t in wide if t[0]["fmt"] == "float32" and t[0]["bits"] == 4 and len(t[0]["groups"][0]["x"]) > 1))
    g0 = w[0]["groups"][0]
    g0["dq"][0] = {"s": 1, "m": [0] * 24 + [1]}       # 2^336 units away: far outside any tolerance
    c.negative_controls("Trace_QNum", [("wide-dq-far-off", w)], constants=devs)
    c.assumptions += ["rank-1 weights: one scale for the whole vector (DESIGN.md section 9)",
                      "wide domain: tolerance hull*11*Q*u + 4*Q*eta (DESIGN.md 7.1); lattice domain: zero tolerance"]


main("C02", body)
