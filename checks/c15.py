#!/venv/bin/python
"""C15 - AWQ layouts are bijective, match the reference, and denote the same weights."""
import copy
import os
import sys

sys.path.insert(0, os.path.dirname(os.path.dirname(os.path.abspath(__file__))))
from lib.check import main  # noqa: E402
from lib.tlc import MachineryError  # noqa: E402

INV = ["Bijective", "UnpackInvertsPack", "V2EqualsReference", "RepresentationsAgree", "BackAndForth"]


def body(c):
    devs = c.dev_constants(["Dev_C15_QBitsTensor"])

    def cfg(name, dev, invs):
        p = os.path.join(c.wd, name)
        open(p, "w").write("INIT Init\nNEXT Next\nCONSTANTS\n  Shapes2 <- MCShapes2\n  Shapes1 <- MCShapes1\n  Dev_C15_QBitsTensor = %s\n" % ("TRUE" if dev else "FALSE")
                           + "".join(f"INVARIANT {i}\n" for i in invs) + "CHECK_DEADLOCK FALSE\n")
        return p
    c.mc("AWQ", cfg("MC_AWQ.cfg", False, INV), require_actions=["Analyse"])
    c.mc_expect_violation("AWQ", cfg("MC_AWQ_dev.cfg", True, ["BackAndForth"]), "BackAndForth")
    cases = c.gen("AWQ", cfg("Gen_AWQ.cfg", False, ["Emit"]))
    if len(cases) < 10:
        raise MachineryError("too few AWQ cases")
    extra = [("v2", 16, 256), ("v2", 4, 320), ("v1", 7, 32), ("v1r", 6, 40)] if c.quick else \
            [("v2", 16, 256), ("v2", 4, 320), ("v2", 64, 512), ("v2", 20, 448), ("v1", 7, 32), ("v1r", 6, 40), ("v1r", 33, 128), ("v1", 64, 512)]
    conv = [(4, 128), (8, 256), (12, 384)] if c.quick else [(4, 128), (8, 256), (12, 384), (64, 512), (32, 1024), (20, 256)]
    tr = c.harness("h_awq.py", {"cases": [{"layout": x["layout"], "N": x["N"], "K": x["K"]} for x in cases], "extra_shapes": extra, "convert": conv, "seed": c.seed})["traces"]
    consts = {"Shapes2": "{}", "Shapes1": "{}", "Dev_C15_QBitsTensor": "TRUE" if devs["Dev_C15_QBitsTensor"] else "FALSE"}
    res = c.validate("Trace_AWQ", tr, chunk=6, constants=consts)
    c.judge(tr, res, describe=lambda t: {k: t[0].get(k) for k in ("act", "layout", "N", "K", "impl", "outcome")})
    # the TLC-generated position maps against the recovered ones (as-built: drift only)
    c.extra["layout_cases"] = len(cases) + len(extra)
    c.extra["positions_characterised"] = sum(len(e["dest"]) for t in tr for e in t if e["act"] == "Perm")
    c.extra["conversions"] = len(conv)
    c.extra["exhaustive"] = True
    c.add_samples([{k: (v if k != "dest" else v[:6]) for k, v in tr[0][0].items()}, {k: (v if not isinstance(v, list) else v[:2]) for k, v in tr[-1][0].items()}])
    p = copy.deepcopy(next(t for t in tr if t[0]["act"] == "Perm" and t[0]["layout"] == "v2"))
    n1 = copy.deepcopy(p); n1[0]["dest"][3], n1[0]["dest"][4] = n1[0]["dest"][4], n1[0]["dest"][4]
    n2 = copy.deepcopy(p); n2[1]["dest"][0], n2[1]["dest"][1] = n2[1]["dest"][1], n2[1]["dest"][0]
    n3 = copy.deepcopy(p); n3[0]["roundtrip"] = False
    cv = copy.deepcopy(next(t for t in tr if t[0]["act"] == "Convert" and t[0]["outcome"] == "ok"))
    cv[0]["deq_opt"][5] = {"s": 1, "m": [0, 0, 0, 0, 0, 3]}
    c.negative_controls("Trace_AWQ", [("not-bijective", n1), ("differs-from-reference", n2), ("unpack-not-inverse", n3), ("values-differ", cv)], constants=consts)
    c.assumptions += ["the AWQ modules are executed on CPU with their assert statements stripped (compile(..., optimize=1)); the CUDA gemm kernel is out of reach",
                      "pack/unpack are value-independent position permutations (they only move 4-bit fields), so four index-coded passes characterise a shape completely"]


main("C15", body)
