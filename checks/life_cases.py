"""Directed histories and negative controls per life-cycle property."""
import life_common as L

ARCHS = (["Linear", "Other", "Linear"], ["LayerNorm", "Linear"], ["Conv2d", "Other", "Conv2d"], ["Linear", "LayerNorm", "Linear"], ["Linear", "Linear"])
CAL = [{"a": "EnterCalib", "momentum": "m90", "streamline": False}, {"a": "CalibBatch", "batch": "b1"}, {"a": "ExitCalib"}]


def directed(judge):
    out = []
    for arch in ARCHS:
        for wq in ("qint8", "qfloat8", "qint4", "qint2") + (("qfloat8_e5m2",) if judge in ("C09", "C10") else ()):
            for aq in ("none", "qint8", "qfloat8"):
                q = {"a": "Quantize", "wq": wq, "aq": aq, "filter": "all"}
                cal = CAL if aq != "none" else []
                if judge == "C08":
                    for f in ("all", "first", "last"):
                        out.append({"arch": arch, "prog": [dict(q, filter=f), {"a": "Forward", "x": "x1"}] + cal + [{"a": "Forward", "x": "x2"}]})
                elif judge == "C09":
                    out.append({"arch": arch, "prog": [q] + cal + [{"a": "Forward", "x": "x1"}, {"a": "ToDevice"}, {"a": "Freeze"}, {"a": "Freeze"}, {"a": "ToDevice"}, {"a": "DeepCopy"}, {"a": "ToDevice"}, {"a": "Forward", "x": "x2"}]})
                elif judge == "C10":
                    for ser in ("none", "pickle", "weights_only", "safetensors"):
                        for target in ("default", "same", "requantize", "otherq"):
                            for frozen in (False, True):
                                out.append({"arch": arch, "prog": [q] + cal + ([{"a": "Freeze"}] if frozen else []) +
                                            [{"a": "Save", "ser": ser}, {"a": "Load", "target": target}, {"a": "Forward", "x": "x1"},
                                             {"a": "Save", "ser": "none"}, {"a": "Load", "target": "same"}]})
                elif judge == "C11":
                    out.append({"arch": arch, "prog": [q] + cal + [{"a": "Forward", "x": "x2"}, {"a": "OptStep", "via": "data"}, {"a": "Forward", "x": "x1"}, {"a": "OptStep", "via": "inplace"}, {"a": "Forward", "x": "x2"},
                                                                   {"a": "OptStep", "via": "copy"}, {"a": "Forward", "x": "x2"},
                                                                   {"a": "Freeze"}, {"a": "OptStep", "via": "data"}, {"a": "Forward", "x": "x1"}]})
                elif judge == "C13":
                    out.append({"arch": arch, "prog": [q, {"a": "EnterCalib", "momentum": "m50", "streamline": True}, {"a": "EnterCalib", "momentum": "m90", "streamline": False},
                                                       {"a": "CalibBatch", "batch": "b1"}, {"a": "LibCall"}, {"a": "ForeignBatch"}, {"a": "RaiseIn", "batch": "b2", "k": 1}, {"a": "Forward", "x": "x1"}, {"a": "LibCall"},
                                                       {"a": "EnterCalib", "momentum": "m25", "streamline": False}, {"a": "ExitCalib"}, {"a": "Forward", "x": "x2"},
                                                       {"a": "Freeze"}, {"a": "Forward", "x": "x1"}]})
                    # the same Calibration object entered again while open, left normally / by exception, then an unrelated forward
                    if aq != "none" and wq in ("qint8", "qint4"):
                        out.append({"arch": arch, "prog": [q, {"a": "EnterCalib", "momentum": "m50", "streamline": False}, {"a": "CalibBatch", "batch": "b1"}, {"a": "ReEnterCalib"},
                                                           {"a": "CalibBatch", "batch": "b2"}, {"a": "ExitCalib"}, {"a": "CalibBatch", "batch": "b3"}, {"a": "ExitCalib"}, {"a": "Forward", "x": "x1"}]})
                        out.append({"arch": arch, "prog": [q, {"a": "EnterCalib", "momentum": "m90", "streamline": True}, {"a": "ReEnterCalib"}, {"a": "RaiseIn", "batch": "b2", "k": 2},
                                                           {"a": "Forward", "x": "x2"}]})
    return out


def module_cases(c):
    """TLC-generated module descriptions (Modules.tla) as one-module histories"""
    import os
    import random
    from lib.tlc import MachineryError
    devs = c.dev_constants(["Dev_C08_LayerNormNoAffine"])

    def cfg(name, dev, invs):
        p = os.path.join(c.wd, name)
        open(p, "w").write("INIT Init\nNEXT Next\nCONSTANTS\n  Dev_C08_LayerNormNoAffine = %s\n" % ("TRUE" if dev else "FALSE")
                           + "".join(f"INVARIANT {i}\n" for i in invs) + "CHECK_DEADLOCK FALSE\n")
        return p
    c.mc("Modules", cfg("MC_Modules.cfg", False, ["HyperMirrored", "NoSpuriousFailure"]), require_actions=["QCreate"])
    c.mc_expect_violation("Modules", cfg("MC_Modules_dev.cfg", True, ["NoSpuriousFailure"]), "NoSpuriousFailure")
    descs = c.gen("Modules", cfg("Gen_Modules.cfg", devs["Dev_C08_LayerNormNoAffine"], ["Emit"]))
    if len(descs) < 1000:
        raise MachineryError("too few module descriptions")
    c.extra["module_descriptions_in_model"] = len(descs)
    rnd = random.Random(c.seed + 3)
    if c.quick:
        descs = rnd.sample(descs, 200)
    out = []
    wqs = ["qint8", "qfloat8", "qint4", "qint2", "qfloat8_e5m2", "qfloat8_e4m3fn"]       # all six weight qtypes
    for i, d in enumerate(descs):
        aq = d["aq"]
        prog = [{"a": "Quantize", "wq": wqs[i % 6], "aq": aq, "filter": "all"}, {"a": "Forward", "x": "x1"}]
        if aq != "none":
            prog += [{"a": "EnterCalib", "momentum": "m90", "streamline": False}, {"a": "CalibBatch", "batch": "b1"}, {"a": "ExitCalib"}, {"a": "Forward", "x": "x2"}]
        prog += [{"a": "Freeze"}, {"a": "Forward", "x": "x1"}]
        out.append({"arch": d["desc"], "prog": prog})
    return out


def ext_switch(c):
    """Ext.tla: the extension switch (outside C13's statement: evidence only, never a verdict)"""
    import os
    import subprocess

    def cfg(name, nest, restore, inv):
        p = os.path.join(c.wd, name)
        open(p, "w").write("INIT Init\nNEXT Next\nCONSTANTS\n  MaxNest = %d\n  RestoreOnExit = %s\nINVARIANT %s\nCHECK_DEADLOCK FALSE\n" % (nest, "TRUE" if restore else "FALSE", inv))
        return p
    c.mc("Ext", cfg("MC_Ext.cfg", 1, False, "NestedRestores"), workers=2, require_actions=["Enter", "Exit"])      # no nesting: as built is fine
    c.mc("Ext", cfg("MC_Ext_restore.cfg", 3, True, "NestedRestores"), workers=2)                                    # a restoring exit would be fine at any depth
    c.mc_expect_violation("Ext", cfg("MC_Ext_nested.cfg", 3, False, "NestedRestores"), "NestedRestores")            # as built, nested
    code = ("import sys; sys.path.insert(0, %r); import qenv; import optimum.quanto.library.ops as o\n"
            "from optimum.quanto.library import disable_extensions\n"
            "obs=[o._ext_enabled]\n"
            "with disable_extensions():\n obs.append(o._ext_enabled)\n with disable_extensions():\n  obs.append(o._ext_enabled)\n obs.append(o._ext_enabled)\n"
            "obs.append(o._ext_enabled); print(obs)" % os.path.join(os.path.dirname(os.path.dirname(os.path.abspath(__file__))), "harness"))
    r = subprocess.run(["/venv/bin/python", "-c", code], capture_output=True, text=True, timeout=300)
    c.extra["extension_switch_observed"] = {"sequence(enabled): outside, in, in-in, back-in-outer, outside": r.stdout.strip().splitlines()[-1] if r.stdout.strip() else r.stderr[-200:],
                                             "note": "as-built exit re-enables extensions inside an outer context (Ext.tla NestedRestores violated with nesting); outside C13's statement"}


def calib_scope(c):
    """CalibScope.tla: the enter / re-enter / exit / raise protocol alone, complete for histories of any length (nesting <= 4)"""
    import os

    def cfg(name, leak, invs, props):
        p = os.path.join(c.wd, name)
        open(p, "w").write("SPECIFICATION Spec\nCONSTANTS\n  MaxNest = 4\n  ReentryLeak = %s\n" % ("TRUE" if leak else "FALSE")
                           + "".join(f"INVARIANT {i}\n" for i in invs) + "".join(f"PROPERTY {i}\n" for i in props) + "CHECK_DEADLOCK FALSE\n")
        return p
    c.mc("CalibScope", cfg("MC_CalibScope.cfg", False, ["Mirrors", "Scoped"], ["ExitRemovesOne", "RaiseClears"]), workers=4,
         require_actions=["Enter", "ReEnter", "Reuse", "Exit", "Raise"])
    c.mc_expect_violation("CalibScope", cfg("MC_CalibScope_leak.cfg", True, ["Mirrors"], []), "Mirrors")
    c.mc_expect_violation("CalibScope", cfg("MC_CalibScope_leak2.cfg", True, ["Scoped"], []), "Scoped")


def body(c, judge):
    need = {"C08": ["Quantize", "Forward"], "C09": ["Freeze", "DeepCopy", "ToDevice"], "C10": ["Save", "Load"], "C11": ["OptStep", "Forward"],
            "C13": ["RaiseIn", "ExitCalib", "ReEnterCalib", "Forward", "LibCall"]}[judge]
    dirs = directed(judge)
    cap = 240 if judge in ("C08", "C10") else 400
    if c.quick and len(dirs) > cap:
        import random
        dirs = random.Random(c.seed).sample(dirs, cap)
    if judge == "C08":
        dirs += module_cases(c)
    if judge == "C13":
        ext_switch(c)
        calib_scope(c)
    tr, consts = L.run(c, judge, dirs, need_actions=need)
    ctrls = []
    if judge == "C13":
        t, i = L.find_event(tr, lambda e: e["act"] == "ExitCalib")
        t[i]["globals"]["post_hooks"] += 1
        ctrls.append(("leaked-hook", t))
        t, i = L.find_event(tr, lambda e: e["act"] == "RaiseIn")
        t[i]["globals"]["modes"] += 1
        ctrls.append(("mode-not-popped", t))
        t, i = L.find_event(tr, lambda e: e["act"] == "Forward")
        t[i]["state_before"] = "changed"
        ctrls.append(("forward-wrote-state", t))
        t, i = L.find_event(tr, lambda e: e["act"] == "Forward")
        t[i]["out_again"]["digest"] = "different"
        ctrls.append(("not-deterministic", t))
        t, i = L.find_event(tr, lambda e: e["act"] == "Freeze")
        t[i]["float_weights_unchanged"] = False
        ctrls.append(("freeze-wrote-float-weights", t))
        t, i = L.find_event(tr, lambda e: e["act"] == "LibCall")
        t[i]["inputs_unchanged"] = False
        ctrls.append(("library-call-modifies-input", t))
    elif judge == "C09":
        t, i = L.find_event(tr, lambda e: e["act"] == "Freeze")
        t[i]["out_after"][0]["digest"] = "x"
        ctrls.append(("freeze-changes-output", t))
        t, i = L.find_event(tr, lambda e: e["act"] == "Freeze" and any(m["q"] and m["wq"] in ("qint4", "qint2") for m in e["mods"]))
        m = next(m for m in t[i]["mods"] if m["q"] and m["wq"] in ("qint4", "qint2"))
        m["payload"]["payload_rows"] = m["payload"]["grouped_rows"]
        m["payload"]["payload_bytes"] = m["payload"]["grouped_numel"]
        ctrls.append(("unpacked-payload", t))
        t, i = L.find_event(tr, lambda e: e["act"] == "DeepCopy")
        t[i]["out_after"][1]["digest"] = "y"
        ctrls.append(("copy-changes-output", t))
        t, i = L.find_event(tr, lambda e: e["act"] == "ToDevice")
        t[i]["out_after"][0]["digest"] = "z"
        ctrls.append(("move-changes-output", t))
        t, i = L.find_event(tr, lambda e: e["act"] == "ToDevice" and any(m["q"] and m["frozen"] for m in e["mods"]))
        next(m for m in t[i]["mods"] if m["q"] and m["frozen"])["frozen"] = False
        ctrls.append(("move-thaws-weights", t))
    elif judge == "C10":
        t, i = L.find_event(tr, lambda e: e["act"] == "Save")
        k = next(iter(t[i]["sd_before"]))
        t[i]["sd_before"][k] = "other:QBytesTensor"
        ctrls.append(("non-plain-value", t))
        t, i = L.find_event(tr, lambda e: e["act"] == "Load")
        t[i]["out_loaded"][0]["digest"] = "z"
        ctrls.append(("outputs-differ", t))
        t, i = L.find_event(tr, lambda e: e["act"] == "Load" and any(m["q"] for m in e["mods"]))
        m = next(m for m in t[i]["mods"] if m["q"])
        m["aq"] = "qint8" if m["aq"] != "qint8" else "none"
        ctrls.append(("activation-qtype-lost", t))
    elif judge == "C08":
        t, i = L.find_event(tr, lambda e: e["act"] == "Quantize" and any(m["q"] for m in e["mods"]))
        m = next(m for m in t[i]["mods"] if m["q"])
        m["q"] = False
        ctrls.append(("eligible-not-swapped", t))
        t, i = L.find_event(tr, lambda e: e["act"] == "Quantize")
        t[i]["preserved"][0]["weight_same"] = False
        ctrls.append(("weights-reinitialised", t))
        t, i = L.find_event(tr, lambda e: e["act"] == "Forward" and e["recipes"])
        t[i]["recipes"][0]["out"][0] = {"s": 1, "m": [0, 0, 0, 0, 0, 0, 0, 0, 0, 0, 0, 0, 0, 0, 0, 0, 0, 0, 0, 0, 9]}
        ctrls.append(("recipe-value-off", t))
    elif judge == "C11":
        t, i = L.find_event(tr, lambda e: e["act"] == "OptStep" and any(g["frozen"] for g in e["grads"]))
        next(g for g in t[i]["grads"] if g["frozen"])["has_grad"] = True
        ctrls.append(("frozen-weight-gets-grad", t))
        t, i = L.find_event(tr, lambda e: e["act"] == "OptStep" and any(g.get("scale") for g in e["grads"]))
        next(g for g in t[i]["grads"] if g.get("scale"))["has_grad"] = True
        ctrls.append(("scale-gets-grad", t))
    if judge == "C11":
        grad_part(c, consts, ctrls)
    c.negative_controls("Trace_Lifecycle", ctrls, constants=consts)


def grad_part(c, consts, ctrls):
    """StraightThrough: gradients of quantized Linear / Conv2d against the float twin, ranks 2-4, upstream gradient layouts"""
    import copy
    import zlib
    cases = []
    seed = c.seed
    dtypes = ["float32", "float16"] if c.quick else ["float32", "float16", "bfloat16"]
    for dt in dtypes:
        for kind, ranks in (("linear", (2, 3, 4)), ("conv2d", (3, 4))):
            for wq in ("qint8", "qfloat8", "qfloat8_e5m2", "qint4", "qint2"):
                for aq in ("none", "qint8", "qfloat8"):
                    for rank in ranks:
                        for go in ("dense", "permuted", "expanded"):
                            for frozen in (False, True):
                                if c.quick and (zlib.crc32(repr((dt, kind, wq, aq, rank, go, frozen, c.seed)).encode()) % 3):
                                    continue
                                seed += 1
                                cases.append({"dtype": dt, "kind": kind, "wq": wq, "aq": aq, "rank": rank, "go": go, "frozen": frozen,
                                              "bias": (seed % 4) != 0, "seed": seed})
    tr = c.harness("h_grad.py", {"cases": cases}, timeout=3000)["traces"]
    res = c.validate("Trace_Lifecycle", tr, chunk=80, constants=consts)
    c.judge(tr, res, describe=lambda t: t[0]["case"])
    c.extra["gradient_cases"] = len(tr)
    ok = copy.deepcopy(next(t for t in tr if t[0]["outcome"] == "ok" and not t[0]["gw"]["missing"] and t[0]["case"]["dtype"] == "float32"))
    ok[0]["gw"]["got"][0] = {"s": 1, "m": [0, 0, 0, 0, 0, 0, 0, 0, 0, 0, 0, 0, 5]}
    ctrls.append(("weight-gradient-off", ok))
    ok2 = copy.deepcopy(next(t for t in tr if t[0]["outcome"] == "ok" and t[0]["case"]["bias"]))
    ok2[0]["b_has_grad"] = False
    ctrls.append(("bias-gradient-missing", ok2))
