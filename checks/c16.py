#!/venv/bin/python
"""C16 - finite tensors never quantize to NaN/Inf, whatever their range."""
import copy
import os
import sys

sys.path.insert(0, os.path.dirname(os.path.dirname(os.path.abspath(__file__))))
from lib.check import main  # noqa: E402
from lib.tlc import MachineryError  # noqa: E402

DEVS = ["Dev_C16_AbsmaxOverflow", "Dev_C16_F8ZeroScale", "Dev_C02_NoZeroHull"]


def body(c):
    devs = c.dev_constants(DEVS)
    # model: special-value paths.  With the zero-scale guard of the weight optimizer the only non-finite
    # classes left in the model are the ones listed as known findings.
    def cfg(name, guard, invs):
        p = os.path.join(c.wd, name)
        open(p, "w").write("INIT Init\nNEXT Next\nCONSTANTS\n  ZeroScaleGuard = %s\n" % ("TRUE" if guard else "FALSE")
                           + "".join(f"INVARIANT {i}\n" for i in invs) + "CHECK_DEADLOCK FALSE\n")
        return p
    c.mc("QDegen", cfg("MC_QDegen.cfg", True, ["OnlyKnownClasses", "ZeroStaysZero", "GuardedZeroRowsFinite"]), workers=4,
         require_actions=["Scale", "Divide", "ClampCast", "Dequant"])
    c.mc_expect_violation("QDegen", cfg("MC_QDegen_noguard.cfg", False, ["GuardedZeroRowsFinite"]), "GuardedZeroRowsFinite")
    c.mc_expect_violation("QDegen", cfg("MC_QDegen_fin.cfg", True, ["FiniteDequant"]), "FiniteDequant")
    # degenerate lattice points of the symmetric and affine machines (zero, constant, one-sided groups)
    aff = os.path.join(c.wd, "MC_QAff.cfg")
    open(aff, "w").write("INIT Init\nNEXT Next\nCONSTANTS\n  NoZeroHull = FALSE\n  Points <- MCPoints\n  GroupLen = 3\n  GShapes <- MCGShapes\n"
                         + "".join(f"INVARIANT {i}\n" for i in ["HalfStepPerGroup", "ZpFits", "CodesFit"]) + "CHECK_DEADLOCK FALSE\n")
    c.mc("QAff", aff, workers=12, require_actions=["Reduce", "ScaleZp", "Quantize", "Dequant"])
    tr = c.harness("h_qnum.py", {"mode": "finite", "seed": c.seed, "reps": 2 if c.quick else 40}, timeout=3000)["traces"]
    tr = c.screen(tr, "Trace_QNum", chunk=30, constants=devs)
    res = c.validate("Trace_QNum", tr, chunk=30, constants=devs)
    c.judge(tr, res, describe=lambda t: {k: t[0].get(k) for k in ("kind", "qt", "fmt", "axis", "gs", "shape", "class", "classes")})
    kinds = {}
    classes = set()
    for t in tr:
        kinds[t[0]["kind"]] = kinds.get(t[0]["kind"], 0) + 1
        classes.update(t[0].get("classes", []))
    c.extra["events_by_kind"] = kinds
    c.extra["row_classes_exercised"] = sorted(classes)
    for need in ("zero", "constant", "one-sided", "offset", "subnormal", "near-max", "mixed", "single", "mixed-max"):
        if need not in classes:
            raise MachineryError(f"vacuity: row class {need} not generated")
    c.add_samples([t[0] for t in tr[:2]] + [tr[-1][0]])
    n1 = [dict(copy.deepcopy(tr[0][0]), finite=False, **{"class": "other"})]
    n2 = [dict(copy.deepcopy(tr[0][0]), zero_exact=False)]
    c.negative_controls("Trace_QNum", [("nonfinite-other-class", n1), ("zero-not-exact", n2)], constants=devs)
    c.assumptions += ["calibration / inference drivers run under torch.no_grad()",
                      "bfloat16 linear layers use feature sizes that are multiples of 16 (torch._weight_int8pack_mm hazard, see C07)"]


main("C16", body)
