#!/venv/bin/python
"""C12 - calibration scales are the configured-momentum average of batch absmax ranges."""
import os
import sys

sys.path.insert(0, os.path.dirname(os.path.dirname(os.path.abspath(__file__))))
sys.path.insert(0, os.path.dirname(os.path.abspath(__file__)))
from lib.check import main  # noqa: E402
import life_common as L  # noqa: E402


def body(c):
    directed = []
    for arch in (["Linear", "Other", "Linear"], ["LayerNorm", "Linear"], ["Conv2d", "Other", "Conv2d"], ["Linear", "LayerNorm", "Linear"], ["Linear", "Linear"]):
        for aq in ("qint8", "qfloat8"):
            for mo in ("m50", "m25", "m90"):
                for sl in (False, True):
                    directed.append({"arch": arch, "prog": [{"a": "Quantize", "wq": "qint8", "aq": aq, "filter": "all"},
                                                            {"a": "EnterCalib", "momentum": mo, "streamline": sl}, {"a": "CalibBatch", "batch": "b1"},
                                                            {"a": "CalibBatch", "batch": "b2"}, {"a": "ForeignBatch"}, {"a": "CalibBatch", "batch": "b3"}, {"a": "ExitCalib"},
                                                            {"a": "EnterCalib", "momentum": "m50", "streamline": sl}, {"a": "CalibBatch", "batch": "b2"}, {"a": "ExitCalib"}]})
            directed.append({"arch": arch, "prog": [{"a": "Quantize", "wq": "qint8", "aq": aq, "filter": "all"}, {"a": "EnterCalib", "momentum": "m50", "streamline": False},
                                                    {"a": "CalibBatch", "batch": "bone"}, {"a": "CalibBatch", "batch": "b1"}, {"a": "ExitCalib"}]})
    tr, consts = L.run(c, "C12", directed, need_actions=["CalibBatch", "EnterCalib", "ExitCalib"])
    upd = sum(1 for t in tr for e in t[1:] if e["act"] == "CalibBatch" for r in e.get("calib", []) if r["aq"] != "none")
    c.extra["scale_updates_checked"] = upd
    # streamlining as observed (evidence only): how many quantizing modules lost their activations after a batch in a streamline context
    lost = kept = 0
    for t in tr:
        sl = False
        for e in t[1:]:
            if e["act"] == "EnterCalib":
                sl = bool(e["args"]["streamline"])
            if e["act"] == "CalibBatch" and sl and e.get("n_ctx") == 1:
                for r in e.get("calib", []):
                    if r["aq"] != "none" and "aq_after" in r:
                        nm = next(m for m in e["mods"] if m["name"] == r["name"])
                        if nm["aq"] == "none":
                            lost += 1
                        else:
                            kept += 1
    c.extra["streamline_observed"] = {"modules_that_lost_activations": lost, "modules_that_kept_them": kept,
                                      "note": "as built `QTensor in types` is never true for QBytesTensor arguments, so every child is cleared (Lifecycle.tla StreamlineTypeTest); outside the listed properties"}
    t, i = L.find_event(tr, lambda e: e["act"] == "CalibBatch" and e["n_ctx"] == 1 and any("in_new" in r and r["aq"] != "none" and r["insc_before"]["f"] != 1.0 for r in e["calib"]))
    r = next(r for r in t[i]["calib"] if "in_new" in r and r["aq"] != "none" and r["insc_before"]["f"] != 1.0)
    r["insc_after"] = dict(r["in_new"], m=r["in_new"]["m"] + [7])     # far away from any average of the two
    t2, i2 = L.find_event(tr, lambda e: e["act"] == "CalibBatch" and e["n_ctx"] == 1 and any("out_new" in r for r in e["calib"]))
    r2 = next(r for r in t2[i2]["calib"] if "out_new" in r)
    r2["outsc_after"] = dict(r2["outsc_after"], m=r2["outsc_after"]["m"] + [1])
    c.negative_controls("Trace_Lifecycle", [("input-scale-off", t), ("output-scale-off", t2)], constants=consts)


main("C12", body)
