"""Shared body of the C08 - C13 checks (Lifecycle.tla + Trace_Lifecycle.tla + harness/h_life.py)."""
import copy
import os
import random

from lib.tlc import MachineryError

DEVS = ["Dev_C13_ReentryLeak", "Dev_C12_InputMomentum", "Dev_C12_ScaleOne", "Dev_C10_GroupSizeLost", "Dev_C10_LayerNormTarget", "Dev_C10_ScaleDtype",
        "Dev_C09_DeepCopyQBits", "Dev_C08_ScaleDtype", "Dev_C05_CopyPlain", "Dev_C07_F16Float8Act", "Dev_C08_LayerNormNoAffine", "Dev_C07_IntMMK1"]
INVS = ["SwapExactlyEligible", "FrozenNeverStale", "NoStaleWeights", "CalibrationScoped"]
PROPS = ["MovePreservesDenotation", "FreezePreservesDenotation", "FrozenNoGrad", "EmaLawStep", "InferencePure", "RoundTripDenotation"]
FOCUS = {"C08": ["all", "train"], "C09": ["freeze"], "C10": ["serial"], "C11": ["train"], "C12": ["calib"], "C13": ["calib", "all"]}


MODEL_DEFAULTS = {"Dev_C12_InputMomentum": False, "Dev_C10_GroupSizeLost": False, "Dev_C13_ReentryLeak": False, "StreamlineTypeTest": True}


def life_cfg(c, name, depth, focus, model_devs, invs=(), props=(), view=True, emit=False):
    p = os.path.join(c.wd, name)
    model_devs = dict(MODEL_DEFAULTS, **model_devs)
    with open(p, "w") as f:
        f.write("SPECIFICATION Spec\nCONSTANTS\n  MaxDepth = %d\n  Focus = \"%s\"\n" % (depth, focus)
                + "".join("  %s = %s\n" % (k, "TRUE" if v else "FALSE") for k, v in model_devs.items())
                + "".join(f"INVARIANT {i}\n" for i in invs) + "".join(f"PROPERTY {i}\n" for i in props)
                + ("INVARIANT Emit\n" if emit else "") + ("VIEW View\n" if view else "") + "CHECK_DEADLOCK FALSE\n")
    return p


def trace_consts(c, judge):
    devs = c.dev_constants(DEVS)
    consts = {"Judge": '"%s"' % judge}
    consts.update({d: ("TRUE" if devs[d] else "FALSE") for d in DEVS})
    return consts


def model_and_histories(c, judge, extra_skeletons=()):
    off = {"Dev_C12_InputMomentum": False, "Dev_C10_GroupSizeLost": False, "StreamlineTypeTest": True}
    c.mc("Lifecycle", life_cfg(c, "MC_Lifecycle.cfg", 4 if c.quick else 5, "all", off, INVS, PROPS), workers=12, timeout=1500,
         require_actions=["Quantize", "ActForward", "ActEnterCalib", "ActReEnter", "ActCalibBatch", "ActRaiseIn", "ActExitCalib", "ActFreeze", "ActOptStep", "ActSave", "ActDeepCopy", "ActToDevice"] + ([] if c.quick else ["ActLoad"]))
    if judge == "C12":
        c.mc_expect_violation("Lifecycle", life_cfg(c, "MC_dev.cfg", 4, "calib", {"Dev_C12_InputMomentum": True, "Dev_C10_GroupSizeLost": False, "StreamlineTypeTest": True}, (), ["EmaLawStep"]), "EmaLawStep")
        # streamlining (outside the listed properties, evidence only): the documented intent holds in the model, the as-built type test breaks it
        c.mc("Lifecycle", life_cfg(c, "MC_streamline.cfg", 4, "calib", {"Dev_C12_InputMomentum": False, "Dev_C10_GroupSizeLost": False, "StreamlineTypeTest": False}, (), ["StreamlineKeepsConsumers"]), workers=8)
        c.mc_expect_violation("Lifecycle", life_cfg(c, "MC_streamline_dev.cfg", 4, "calib", {"Dev_C12_InputMomentum": False, "Dev_C10_GroupSizeLost": False, "StreamlineTypeTest": True}, (), ["StreamlineKeepsConsumers"]), "StreamlineKeepsConsumers")
    if judge == "C13":
        # the same Calibration object entered twice: with a single pair of handles per object the first pair of hooks is leaked
        c.mc_expect_violation("Lifecycle", life_cfg(c, "MC_dev.cfg", 5, "calib", {"Dev_C13_ReentryLeak": True}, ["CalibrationScoped"], ()), "CalibrationScoped")
        c.mc_expect_violation("Lifecycle", life_cfg(c, "MC_dev2.cfg", 6, "calib", {"Dev_C13_ReentryLeak": True}, (), ["InferencePure"]), "InferencePure")
    if judge == "C10":
        c.mc_expect_violation("Lifecycle", life_cfg(c, "MC_dev.cfg", 5, "serial", {"Dev_C12_InputMomentum": False, "Dev_C10_GroupSizeLost": True, "StreamlineTypeTest": True}, (), ["RoundTripDenotation"]), "RoundTripDenotation")
    devs = c.dev_constants(DEVS)
    mdevs = {"Dev_C12_InputMomentum": devs["Dev_C12_InputMomentum"], "Dev_C10_GroupSizeLost": devs["Dev_C10_GroupSizeLost"],
             "Dev_C13_ReentryLeak": devs["Dev_C13_ReentryLeak"], "StreamlineTypeTest": True}
    rnd = random.Random(c.seed)
    sks = []
    stats = {}
    for focus in FOCUS[judge]:
        ex = c.gen("Lifecycle", life_cfg(c, f"Gen_{focus}.cfg", 3, focus, mdevs, view=False, emit=True))
        sim = c.gen("Lifecycle", life_cfg(c, f"Sim_{focus}.cfg", 8, focus, mdevs, view=False, emit=True), simulate=600 if c.quick else 6000, depth=9, seed=c.seed + 7)
        stats[focus] = {"depth3_exhaustive": len(ex), "simulated": len(sim)}
        ne, ns = ((120, 260) if judge in ("C08", "C13") else (200, 450)) if c.quick else (3000, 12000)
        sks += rnd.sample(ex, min(len(ex), ne)) + rnd.sample(sim, min(len(sim), ns))
    sks += list(extra_skeletons)
    if len(sks) < 300:
        raise MachineryError(f"too few histories: {len(sks)}")
    dtypes = ["float32", "float16"] if c.quick else ["float32", "float16", "bfloat16"]
    tr = c.harness("h_life.py", {"skeletons": sks, "dtypes": dtypes}, timeout=3000)["traces"]
    c.extra["histories"] = len(tr)
    c.extra["history_generation"] = stats
    c.extra["dtypes"] = dtypes
    acts = {}
    for t in tr:
        for e in t[1:]:
            acts[e["act"]] = acts.get(e["act"], 0) + 1
    c.extra["actions_executed"] = acts
    return tr


def run(c, judge, extra_skeletons=(), need_actions=()):
    tr = model_and_histories(c, judge, extra_skeletons)
    consts = trace_consts(c, judge)
    res = c.validate("Trace_Lifecycle", tr, chunk=60, constants=consts)
    c.judge(tr, res, describe=lambda t: {"arch": t[0].get("arch"), "dtype": t[0].get("dtype"), "nested": t[0].get("nested"),
                                         "prog": [e.get("args") for e in t[1:]]})
    for a in need_actions:
        if not c.extra["actions_executed"].get(a):
            raise MachineryError(f"vacuity: action {a} never executed")
    c.add_samples([{"arch": t[0]["arch"], "dtype": t[0]["dtype"], "prog": [e["args"] for e in t[1:]],
                    "last": {k: v for k, v in t[-1].items() if k in ("act", "outcome", "globals", "out", "calib")}} for t in (tr[0], tr[len(tr) // 2])])
    c.assumptions += ["inference and calibration in the driver run under torch.no_grad()",
                      "models are chains (optionally nested Sequentials) of Linear / Conv2d / LayerNorm / ReLU; bfloat16 only in the thorough tier",
                      "default / requantize() targets only for unfiltered quantization (a filtered model can only be reloaded with the same filter)"]
    return tr, consts


def find_event(tr, pred):
    for t in tr:
        for i, e in enumerate(t):
            if i > 0 and e.get("outcome") == "ok" and pred(e):
                return copy.deepcopy(t[:i + 1]), i
    raise MachineryError("no event for negative control")
