#!/venv/bin/python
"""C11 - life-cycle property, see checks/life_common.py and spec/Trace_Lifecycle.tla."""
import os
import sys

sys.path.insert(0, os.path.dirname(os.path.dirname(os.path.abspath(__file__))))
sys.path.insert(0, os.path.dirname(os.path.abspath(__file__)))
from lib.check import main  # noqa: E402
import life_common as L  # noqa: E402
import life_cases  # noqa: E402

main("C11", lambda c: life_cases.body(c, "C11"))
