#!/venv/bin/python
"""C03 - scale selection is non-saturating, full-range and local to its axis/group."""
import copy
import os
import sys

sys.path.insert(0, os.path.dirname(os.path.dirname(os.path.abspath(__file__))))
from lib.check import main  # noqa: E402
from lib.tlc import MachineryError  # noqa: E402

DEVS = ["Dev_C16_AbsmaxOverflow", "Dev_C16_F8ZeroScale", "Dev_C02_NoZeroHull"]


def body(c):
    devs = c.dev_constants(DEVS)
    base = "INIT Init\nNEXT Next\nCONSTANTS\n  RShapes <- MCRShapes\n  RPoints <- MCRPoints\n"
    invs = ["OneEntryPerIndex", "NonSaturatingAbs", "FullRangeAbs", "Locality"]
    mc = os.path.join(c.wd, "MC_QRange.cfg")
    open(mc, "w").write(base + "".join(f"INVARIANT {i}\n" for i in invs) + "CHECK_DEADLOCK FALSE\n")
    c.mc("QRange", mc, require_actions=["Optimize", "PerturbOthers", "Reoptimize"])
    gen = os.path.join(c.wd, "Gen_QRange.cfg")
    open(gen, "w").write(base + "INVARIANT Emit\nCHECK_DEADLOCK FALSE\n")
    cases = c.gen("QRange", gen)
    if len(cases) < 100:
        raise MachineryError("too few QRange cases")
    # low-bit part of the model: NonSaturating / StepBound / grouping locality of QAff
    aff = os.path.join(c.wd, "MC_QAff.cfg")
    open(aff, "w").write("INIT Init\nNEXT Next\nCONSTANTS\n  NoZeroHull = FALSE\n  Points <- MCPoints\n  GroupLen = 3\n  GShapes <- MCGShapes\n"
                         + "".join(f"INVARIANT {i}\n" for i in ["NonSaturating", "StepBound", "ZpFits", "GroupIsPerAxis", "GroupCountOK"])
                         + "CHECK_DEADLOCK FALSE\n")
    c.mc("QAff", aff, workers=12, require_actions=["Reduce", "ScaleZp", "Quantize", "DoGroup"])
    tr = c.harness("h_qnum.py", {"mode": "range", "seed": c.seed, "reps": 1 if c.quick else 25, "tlc_cases": cases})["traces"]
    tr = c.screen(tr, "Trace_QNum", chunk=60, constants=devs)
    res = c.validate("Trace_QNum", tr, chunk=60, constants=devs)
    c.judge(tr, res, describe=lambda t: {k: t[0].get(k) for k in ("act", "which", "qt", "fmt", "axis", "gs", "shape", "relation")})
    kinds = {}
    for t in tr:
        k = t[0].get("which") or t[0].get("relation")
        kinds[k] = kinds.get(k, 0) + 1
    c.extra["events_by_kind"] = kinds
    c.extra["tlc_cases_replayed"] = len(cases)
    for need in ("absmax_opt", "max_opt", "absmax_scale", "quantize_weight8", "others-replaced", "others-scaled", "rows-permuted"):
        if not kinds.get(need):
            raise MachineryError(f"vacuity: no {need} event")
    c.add_samples([{k: (v if k not in ("rows", "obs_a", "obs_b") else v[:1]) for k, v in t[0].items()} for t in (tr[0], tr[-1])])
    r = copy.deepcopy(next(t for t in tr if t[0]["act"] == "RangeW" and t[0]["family"] == "sym" and t[0]["fmt"] == "float32"
                           and any(rw["scale"]["s"] == 1 for rw in t[0]["rows"])))
    rw = next(x for x in r[0]["rows"] if x["scale"]["s"] == 1)
    rw["scale"]["m"] = rw["scale"]["m"] + [1]            # a much larger scale: not full range
    r2 = copy.deepcopy(next(t for t in tr if t[0]["act"] == "RangeW"))
    r2[0]["scale_count"] += 1
    p = copy.deepcopy(next(t for t in tr if t[0]["act"] == "Pair"))
    p[0]["obs_b"][0]["scale"] = p[0]["obs_b"][0]["scale"] + "0"
    c.negative_controls("Trace_QNum", [("scale-too-large", r), ("scale-count", r2), ("pair-differs", p)], constants=devs)
    c.assumptions += ["qmax reading: non-saturation against the storage type's maximum, full range against 2^(bits-1)-1 (DESIGN.md 5/C03)",
                      "rank-1 tensors: a single scale"]


main("C03", body)
