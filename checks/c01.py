#!/venv/bin/python
"""C01 - 8-bit symmetric quantization is a nearest-grid-point projection."""
import copy
import os
import sys

sys.path.insert(0, os.path.dirname(os.path.dirname(os.path.abspath(__file__))))
from lib.check import main  # noqa: E402
from lib.tlc import MachineryError  # noqa: E402

INV = ["NearestGridPoint", "SaturatesNotWraps", "RequantIdempotent", "PipelineIsClosedForm", "TensorNearest"]


def body(c):
    kset = "MCKSetQuick" if c.quick else "MCKSetThorough"
    consts = {"KSet <- " + kset: None}
    mc_cfg = os.path.join(c.wd, "MC_QSym.cfg")
    with open(mc_cfg, "w") as f:
        f.write("INIT Init\nNEXT Next\nCONSTANTS\n  KSet <- %s\n  Shapes <- MCShapes\n" % kset
                + "".join(f"INVARIANT {i}\n" for i in INV) + "CHECK_DEADLOCK FALSE\n")
    c.mc("QSym", mc_cfg, workers=12, require_actions=["Divide", "Round", "ClampStep", "Cast", "Dequant", "Requant", "QuantizeTensor"])
    gen_cfg = os.path.join(c.wd, "Gen_QSym.cfg")
    with open(gen_cfg, "w") as f:
        f.write(open(mc_cfg).read().replace("INVARIANT NearestGridPoint", "INVARIANT Emit"))
    cases = c.gen("QSym", gen_cfg)
    elem = [x for x in cases if x.get("mode") == "elem"]
    tens = [x for x in cases if x.get("mode") == "tensor"]
    if len(elem) < 4000 or len(tens) < 50:
        raise MachineryError(f"too few cases generated: {len(elem)} {len(tens)}")
    sat = sum(1 for x in elem if x["qt"] != "qint8" and abs(x["n"]) > 458752) + sum(1 for x in elem if x["qt"] == "qint8" and abs(x["n"]) > 512)
    ties = sum(1 for x in elem if len(x["nearest"]) > 1)
    if sat == 0 or ties == 0:
        raise MachineryError("vacuity: no saturating / no tie lattice point")
    out = c.harness("h_qsym.py", {"elem_cases": elem, "tensor_cases": tens})
    traces = out["traces"]
    if out["unrepresentable_batches"]:
        raise MachineryError(f"{out['unrepresentable_batches']} batches not representable although the spec says so")
    res = c.validate("Trace_QSym", traces, chunk=12, constants={"KSet": "{}", "Shapes": "{}"})
    c.judge(traces, res, describe=lambda tr: {k: tr[0].get(k) for k in ("qt", "w", "fmt", "k", "axis", "shape")})
    c.extra.update({"lattice_points": len(elem), "lattice_ties": ties, "lattice_saturating": sat, "tensor_cases": len(tens),
                    "tensor_events": out["tensor_events"],
                    "elements_checked": sum(len(t[0]["ns"]) for t in traces),
                    "codes_equal_to_as_built_prediction": sum(1 for t in traces if t[0].get("tlc_codes_equal")),
                    "exhaustive": True})
    c.add_samples([{k: (v if not isinstance(v, list) or len(v) < 12 else v[:12] + ["..."]) for k, v in t[0].items()} for t in traces[::max(1, len(traces) // 3)]])
    base = copy.deepcopy(next(t for t in traces if t[0]["qt"] == "qint8" and len(t[0]["ns"]) > 8))
    n1 = copy.deepcopy(base); n1[0]["codes"][3] = [1, (n1[0]["codes"][3][1] + 1) % 127]
    n2 = copy.deepcopy(base); n2[0]["dq"][2] += 1
    n3 = copy.deepcopy(base); n3[0]["out_dtype"] = "float64"
    fb = copy.deepcopy(next(t for t in traces if t[0]["qt"] == "qfloat8_e4m3fn" and len(t[0]["ns"]) > 8))
    fb[0]["codes2"][1] = [fb[0]["codes2"][1][0], (fb[0]["codes2"][1][1] + 1) % 100]
    c.negative_controls("Trace_QSym", [("wrong-code", n1), ("wrong-dq", n2), ("wrong-dtype", n3), ("not-idempotent", fb)],
                        constants={"KSet": "{}", "Shapes": "{}"})
    c.assumptions += ["lattice domain: power-of-two scales, elements on the fine grid (all float operations exact)"]


main("C01", body)
