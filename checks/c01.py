#!/venv/bin/python
"""C01 - 8-bit symmetric quantization is a nearest-grid-point projection."""
import copy
import os
import sys

sys.path.insert(0, os.path.dirname(os.path.dirname(os.path.abspath(__file__))))
from lib.check import main  # noqa: E402
from lib.tlc import MachineryError  # noqa: E402

INV = ["NearestGridPoint", "SaturatesNotWraps", "RequantIdempotent", "PipelineIsClosedForm", "TensorNearest"]


def body(c):
    kset = "MCKSetQuick" if c.quick else "MCKSetThorough"
    consts = {"KSet <- " + kset: None}
    mc_cfg = os.path.join(c.wd, "MC_QSym.cfg")
    with open(mc_cfg, "w") as f:
        f.write("INIT Init\nNEXT Next\nCONSTANTS\n  KSet <- %s\n  Shapes <- MCShapes\n" % kset
                + "".join(f"INVARIANT {i}\n" for i in INV) + "CHECK_DEADLOCK FALSE\n")
    c.mc("QSym", mc_cfg, workers=12, require_actions=["Divide", "Round", "ClampStep", "Cast", "Dequant", "Requant", "QuantizeTensor"])
    gen_cfg = os.path.join(c.wd, "Gen_QSym.cfg")
    with open(gen_cfg, "w") as f:
        f.write(open(mc_cfg).read().replace("INVARIANT NearestGridPoint", "INVARIANT Emit"))
    cases = c.gen("QSym", gen_cfg)
    elem = [x for x in cases if x.get("mode") == "elem"]
    tens = [x for x in cases if x.get("mode") == "tensor"]
    if len(elem) < 4000 or len(tens) < 50:
        raise MachineryError(f"too few cases generated: {len(elem)} {len(tens)}")
    sat = sum(1 for x in elem if x["qt"] != "qint8" and abs(x["n"]) > 458752) + sum(1 for x in elem if x["qt"] == "qint8" and abs(x["n"]) > 512)
    ties = sum(1 for x in elem if len(x["nearest"]) > 1)
    if sat == 0 or ties == 0:
        raise MachineryError("vacuity: no saturating / no tie lattice point")
    out = c.harness("h_qsym.py", {"elem_cases": elem, "tensor_cases": tens})
    traces = c.screen(out["traces"], "Trace_QSym", chunk=12, constants={"KSet": "{}", "Shapes": "{}"})
    if out["unrepresentable_batches"]:
        raise MachineryError(f"{out['unrepresentable_batches']} batches not representable although the spec says so")
    res = c.validate("Trace_QSym", traces, chunk=12, constants={"KSet": "{}", "Shapes": "{}"})
    c.judge(traces, res, describe=lambda tr: {k: tr[0].get(k) for k in ("qt", "w", "fmt", "k", "axis", "shape")})
    c.extra.update({"lattice_points": len(elem), "lattice_ties": ties, "lattice_saturating": sat, "tensor_cases": len(tens),
                    "tensor_events": out["tensor_events"],
                    "elements_checked": sum(len(t[0]["ns"]) for t in traces),
                    "codes_equal_to_as_built_prediction": sum(1 for t in traces if t[0].get("tlc_codes_equal")),
                    "exhaustive": True})
    c.add_samples([{k: (v if not isinstance(v, list) or len(v) < 12 else v[:12] + ["..."]) for k, v in t[0].items()} for t in traces[::max(1, len(traces) // 3)]])
    base = copy.deepcopy(next(t for t in traces if t[0]["qt"] == "qint8" and len(t[0]["ns"]) > 8))
    n1 = copy.deepcopy(base); n1[0]["codes"][3] = [1, (n1[0]["codes"][3][1] + 5) % 127]        # 5 codes away: never a nearest point, even at a tie
    n2 = copy.deepcopy(base); n2[0]["dq"][2] += 1
    n3 = copy.deepcopy(base); n3[0]["out_dtype"] = "float64"
    fb = copy.deepcopy(next(t for t in traces if t[0]["qt"] == "qfloat8_e4m3fn" and len(t[0]["ns"]) > 8))
    fb[0]["codes2"][1] = [fb[0]["codes2"][1][0], (fb[0]["codes2"][1][1] + 3) % 100]
    c.negative_controls("Trace_QSym", [("wrong-code", n1), ("wrong-dq", n2), ("wrong-dtype", n3), ("not-idempotent", fb)],
                        constants={"KSet": "{}", "Shapes": "{}"})
    # wide domain: the 2^16 value space of float16 / bfloat16 (stratified in the quick tier), boundary-directed
    # float32 values, per-axis scales; judged by Trace_QNum in exact arithmetic with the tolerance of DESIGN.md 7.1
    devs = c.dev_constants(["Dev_C16_AbsmaxOverflow", "Dev_C16_F8ZeroScale", "Dev_C02_NoZeroHull"])
    wide = c.harness("h_qnum.py", {"mode": "sym_wide", "seed": c.seed, "half_step": 32 if c.quick else 1,
                                   "nscales": 4 if c.quick else 7, "random": 300 if c.quick else 3000}, timeout=3000)["traces"]
    wide = c.screen(wide, "Trace_QNum", chunk=24, constants=devs, timeout=1500)
    wres = c.validate("Trace_QNum", wide, chunk=24, constants=devs, timeout=1500)
    c.judge(wide, wres, describe=lambda tr: {k: tr[0].get(k) for k in ("qt", "fmt", "axis", "shape", "tag", "route")})
    # the repository's own tests as a driver: every call of the symmetric quantizer they make is validated as well
    rec = [t for t in c.record_repo_tests(["test/tensor/quantizers", "test/nn/test_qlinear.py"] if c.quick else ["test"], limit=250 if c.quick else 1500)
           if t[0]["act"] == "SymW"]
    rres = c.validate("Trace_QNum", rec, chunk=24, constants=devs, timeout=1500)
    c.judge(rec, rres, describe=lambda tr: {k: tr[0].get(k) for k in ("qt", "fmt", "axis", "shape", "tag", "test")})
    c.extra["repo_tests_recorded"]["symmetric_quantizer_calls_validated"] = len(rec)
    c.extra["wide_events"] = len(wide)
    c.extra["wide_elements"] = sum(len(t[0]["x"]) for t in wide)
    c.extra["wide_excluded_unrepresentable_grid_points"] = sum(t[0]["nonfinite_dq"] for t in wide)
    c.extra["half_precision_values_per_format"] = 65536 // (32 if c.quick else 1)
    def pick(qt, fmt, lo, hi):
        for t in wide:
            if t[0]["qt"] == qt and t[0]["fmt"] == fmt:
                for k, cc in enumerate(t[0]["code"]):
                    if lo <= cc[1] <= hi and t[0]["dq"][k]["s"] != 2:
                        return copy.deepcopy(t), k
        raise MachineryError("no element for negative control")
    w, i = pick("qint8", "float16", 2, 100)
    w[0]["code"][i] = [w[0]["code"][i][0], w[0]["code"][i][1] + 4]
    w2, i = pick("qfloat8_e5m2", "float32", 40, 100)
    w2[0]["code2"][i] = [w2[0]["code2"][i][0], w2[0]["code2"][i][1] - 3]
    c.negative_controls("Trace_QNum", [("wide-code-off-by-one", w), ("wide-not-idempotent", w2)], constants=devs)
    c.assumptions += ["lattice domain: power-of-two scales, elements on the fine grid (all float operations exact)"]


main("C01", body)
