#!/venv/bin/python
"""C14 - configurations are either rejected with ValueError or fully honoured."""
import copy
import os
import sys

sys.path.insert(0, os.path.dirname(os.path.dirname(os.path.abspath(__file__))))
from lib.check import main  # noqa: E402
from lib.tlc import MachineryError  # noqa: E402

DEVS = ["Dev_C14_ScaleAxis"]


def body(c):
    devs = c.dev_constants(DEVS)
    maxin = 8192

    def cfg(name, dev, invs):
        p = os.path.join(c.wd, name)
        open(p, "w").write("INIT Init\nNEXT Next\nCONSTANTS\n  CShapes <- MCShapes\n  MaxInFeatures = %d\n  Dev_C14_ScaleAxis = %s\n" % (maxin, "TRUE" if dev else "FALSE")
                           + "".join(f"INVARIANT {i}\n" for i in invs) + "CHECK_DEADLOCK FALSE\n")
        return p
    c.mc("Config", cfg("MC_Config.cfg", False, ["RejectIsValueError", "UnsupportedRejected", "AcceptedHonoured"]), require_actions=["Evaluate"])
    c.mc_expect_violation("Config", cfg("MC_Config_dev.cfg", True, ["UnsupportedRejected"]), "UnsupportedRejected")
    cases = c.gen("Config", cfg("Gen_Config.cfg", devs["Dev_C14_ScaleAxis"], ["Emit"]))
    if len(cases) < 10000:
        raise MachineryError(f"only {len(cases)} configurations")
    infs = sorted(set(list(range(1, 301)) + [32 * k + d for k in range(1, 257) for d in (-1, 0, 1)])) if c.quick else list(range(1, 2049)) + [32 * k + d for k in range(64, 257) for d in (-1, 0, 1)]
    convs = [(cin, g, kh, kw) for cin in (4, 16, 48, 96, 130) for g in (1, 2) for (kh, kw) in ((1, 1), (3, 3), (2, 5), (7, 7)) if cin % g == 0]
    out = c.harness("h_config.py", {"cases": cases, "in_features": [i for i in infs if i <= maxin], "convs": convs}, timeout=3000)
    tr = out["traces"]
    consts = {"CShapes": "{}", "MaxInFeatures": maxin, "Dev_C14_ScaleAxis": "TRUE" if devs["Dev_C14_ScaleAxis"] else "FALSE"}
    res = c.validate("Trace_Config", tr, chunk=1500, constants=consts)
    c.judge(tr, res, describe=lambda t: {k: t[0].get(k) for k in ("fn", "qt", "shape", "axis", "gs", "opt", "sk", "outcome")})
    calls = [t[0] for t in tr if t[0]["act"] == "Call"]
    c.extra["configurations"] = len(calls)
    c.extra["accepted"] = sum(1 for e in calls if e["outcome"] == "ok")
    c.extra["rejected_valueerror"] = sum(1 for e in calls if e["outcome"] == "ValueError")
    c.extra["other_exceptions"] = sorted({e["outcome"] for e in calls if e["outcome"] not in ("ok", "ValueError")})
    c.extra["auto_group_size_modules"] = sum(len(t) for t in tr if t[0]["act"] == "AutoGS")
    c.extra["auto_group_size_in_tlc"] = f"AutoGroupDivides/AutoGroupMaximal for every in_features in 1..{maxin} (ASSUME evaluated by TLC)"
    c.extra["exhaustive"] = True
    c.add_samples([calls[0], calls[len(calls) // 2], next(t for t in tr if t[0]["act"] == "AutoGS")[3]])
    ok = next(e for e in calls if e["outcome"] == "ok" and e["fn"] == "quantize_weight" and e["gs"] != 0)
    n1 = [dict(copy.deepcopy(ok), res=dict(ok["res"], gs=0))]
    bad = next(e for e in calls if e["outcome"] == "ValueError" and e["fn"] == "quantize_weight" and e["axis"] == 1)
    n2 = [dict(copy.deepcopy(bad), outcome="ok", res=dict(ok["res"], qtype=bad["qt"], shape=bad["shape"], dtype=bad["dtype"]))]
    n3 = [dict(copy.deepcopy(bad), outcome="other:RuntimeError")]
    n4 = [{"act": "AutoGS", "kind": "linear", "qt": "qint4", "in_features": 200, "gs": 96, "runs": True}]
    c.negative_controls("Trace_Config", [("group-size-not-honoured", n1), ("unsupported-accepted", n2), ("wrong-exception", n3), ("gs-not-divisor", n4)], constants=consts)


main("C14", body)
