---------------------------- MODULE Trace_QAff ----------------------------
(* Lattice (exact) trace validation of quantize_weight(qint2|qint4): tensors assembled
   from TLC-generated lattice groups; every number is an integer in quarter steps of the
   group's own scale, so the abstract half-step bound is checked with zero tolerance.  *)
EXTENDS QAff, TLCExt, IOUtils

Tr == JsonDeserialize(IOEnv.TRACE_FILE)
VARIABLES tid, l, drift

Ev == Tr[tid][l]
Is(a) == l <= Len(Tr[tid]) /\ Ev.act = a

TInit ==
  /\ tid \in 1..Len(Tr) /\ l = 1 /\ drift = 0
  /\ mode = "trace" /\ bits = 0 /\ grp = <<>> /\ pc = "" /\ rmin = 0 /\ rmax = 0 /\ zp = 0
  /\ codes = <<>> /\ dint = <<>> /\ shape = <<>> /\ axis = 0 /\ gs = 0

Hull(x) == HullMax(x) - HullMin(x)

\* abstract: per group, 2Q|x - dq| <= hull (exact integers)
GroupOK(b, g) == \A i \in 1..Len(g.x) : 2 * QMax(b) * Abs(g.x[i] - g.dq[i]) <= Hull(g.x)

\* as built (drift only): scale, zero-point and codes are the ones the model predicts
GroupAsBuilt(b, g) ==
  LET lo == RMin(g.x, NoZeroHull) hi == RMax(g.x, NoZeroHull) z == ZpOf(lo, hi, b) IN
  /\ g.scale_q * QMax(b) = hi - lo
  /\ g.zp = z
  /\ g.codes = [i \in 1..Len(g.x) |-> CodeOf(g.x[i], lo, hi, z, b)]

RECURSIVE CountBad(_, _, _)
CountBad(b, gsq, k) == IF k = 0 THEN 0 ELSE (IF GroupAsBuilt(b, gsq[k]) THEN 0 ELSE 1) + CountBad(b, gsq, k - 1)

TAffL ==
  /\ Is("AffL")
  /\ (\A k \in 1..Len(Ev.groups) : GroupOK(Ev.bits, Ev.groups[k])) = TRUE         \* HalfStepPerGroup
  /\ (Ev.out_shape = Ev.shape /\ Ev.out_dtype = Ev.fmt) = TRUE                     \* ShapeRestored
  /\ (Ev.fmt \in {"float32", "float16"} => Ev.payload_equal) = TRUE                \* RequantIdempotentAffine
  /\ (Ev.scale_count = Len(Ev.groups) /\ Ev.scale_dtype = Ev.fmt) = TRUE           \* one scale per group (C03)
  /\ drift' = drift + CountBad(Ev.bits, Ev.groups, Len(Ev.groups))
  /\ l' = l + 1 /\ UNCHANGED <<tid, vars>>

TNext == TAffL
Record == TLCSet(tid, <<l, drift>>)
Post == \A t \in 1..Len(Tr) :
          LET rr == TLCGet(t) IN
            PrintT(ToJson([tid |-> t, reached |-> rr[1], len |-> Len(Tr[t]), drift |-> rr[2]]))
=============================================================================
