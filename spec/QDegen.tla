------------------------------- MODULE QDegen -------------------------------
(* Degenerate ranges (property C16): the special-value paths of the quantization pipeline
   in an extended-real algebra, so that 0/0, x/0, overflow to infinity and NaN casts are
   explored by TLC rather than sampled.

   Values are abstract magnitudes:  "zero", "norm" (ordinary finite), "top" (the largest
   finite number of the working format), "inf", "nan"; signs do not matter here.

   As-built layer (symmetric path, 8-bit):
     Range     rmax = absmax(row)                       (absmax_optimizer.py:30-35)
     Scale     scale = rmax / qmax                      (:36-37)   "top"/qmax may round *up*
     Divide    data = base / scale                      (symmetric.py:53)
     Round     torch.round (ints)                       (:55)
     ClampCast clamp(min,max).to(dtype)                 (:57)  NaN -> 0 for int8, NaN for float8
     Dequant   scale * data                             (qbytes.py:32-34)
   As-built layer (affine path, 2/4-bit): Range (min/max with zero), Scale ((max-min)/Q may
   overflow to inf for mixed-sign rows near +-top), Zp, Quantize, Dequant.

   ZeroScaleGuard = TRUE models an optimizer that never returns a zero scale.
   Abstract layer: FiniteDequant, ZeroStaysZero.                                          *)
EXTENDS Integers, TLC, FiniteSets

CONSTANTS ZeroScaleGuard

VARIABLES path, qt, rowmax, elem, roundsUp, mixedSign, scale, data, code, dq, pc
vars == <<path, qt, rowmax, elem, roundsUp, mixedSign, scale, data, code, dq, pc>>

Mag == {"zero", "norm", "top"}

\* extended division / multiplication on magnitudes
Div(a, b) ==
  IF a = "nan" \/ b = "nan" THEN "nan"
  ELSE IF b = "zero" THEN (IF a = "zero" THEN "nan" ELSE "inf")
  ELSE IF b = "inf" THEN (IF a = "inf" THEN "nan" ELSE "zero")
  ELSE IF a = "zero" THEN "zero" ELSE IF a = "inf" THEN "inf" ELSE "norm"
Mul(a, b) ==
  IF a = "nan" \/ b = "nan" THEN "nan"
  ELSE IF (a = "zero" /\ b = "inf") \/ (a = "inf" /\ b = "zero") THEN "nan"
  ELSE IF a = "zero" \/ b = "zero" THEN "zero"
  ELSE IF a = "inf" \/ b = "inf" THEN "inf" ELSE "norm"

Init ==
  /\ path \in {"sym", "aff"}
  /\ qt \in (IF path = "sym" THEN {"int8", "float8"} ELSE {"int4"})
  /\ rowmax \in Mag /\ elem \in Mag
  /\ (elem = "top" => rowmax = "top") /\ (rowmax = "zero" => elem = "zero") /\ (elem = "norm" => rowmax # "zero")
  /\ roundsUp \in BOOLEAN /\ mixedSign \in BOOLEAN
  /\ scale = "none" /\ data = "none" /\ code = "none" /\ dq = "none" /\ pc = "range"

\* scale = rmax / qmax (sym)   |   (rmax - rmin) / Q (aff; the difference overflows for +-top rows)
Scale ==
  /\ pc = "range"
  /\ scale' = IF rowmax = "zero" THEN (IF ZeroScaleGuard /\ path = "sym" THEN "norm" ELSE "zero")
              ELSE IF path = "aff" /\ rowmax = "top" /\ mixedSign THEN "inf"
              ELSE "norm"
  /\ pc' = "scaled"
  /\ UNCHANGED <<path, qt, rowmax, elem, roundsUp, mixedSign, data, code, dq>>

Divide ==
  /\ pc = "scaled"
  /\ data' = Div(IF elem = "top" THEN "norm" ELSE elem, scale)
  /\ pc' = "divided"
  /\ UNCHANGED <<path, qt, rowmax, elem, roundsUp, mixedSign, scale, code, dq>>

\* round, (+ zero-point), clamp, cast
ClampCast ==
  /\ pc = "divided"
  /\ code' = IF data = "nan" THEN (IF qt = "float8" THEN "nan" ELSE "zero")     \* clamp(NaN) = NaN; NaN -> int is 0
             ELSE IF data = "inf" THEN "norm"                                       \* saturates
             ELSE data
  /\ pc' = "cast"
  /\ UNCHANGED <<path, qt, rowmax, elem, roundsUp, mixedSign, scale, data, dq>>

\* dq = scale * code ; the product of the (rounded-up) scale and the top code can exceed "top"
Dequant ==
  /\ pc = "cast"
  /\ dq' = LET m == Mul(scale, code) IN
           IF m = "norm" /\ elem = "top" /\ roundsUp THEN "inf" ELSE m
  /\ pc' = "done"
  /\ UNCHANGED <<path, qt, rowmax, elem, roundsUp, mixedSign, scale, data, code>>

Next == Scale \/ Divide \/ ClampCast \/ Dequant

(* abstract *)
FiniteDequant == pc = "done" => dq \in {"zero", "norm"}
ZeroStaysZero == (pc = "done" /\ elem = "zero" /\ dq \in {"zero", "norm"}) => dq = "zero" \/ path = "aff"

\* the classes in which the as-built pipeline is known to leave the finite domain
NonFiniteClass ==
  IF pc # "done" \/ dq \in {"zero", "norm"} THEN "ok"
  ELSE IF qt = "float8" /\ rowmax = "zero" THEN "zero-row-float8"
  ELSE IF elem = "top" /\ roundsUp THEN "near-max"
  ELSE IF path = "aff" /\ rowmax = "top" /\ mixedSign THEN "near-max"
  ELSE "other"
\* with the zero-scale guard, an all-zero row of 8-bit weights never leaves the finite domain
GuardedZeroRowsFinite == (pc = "done" /\ path = "sym" /\ rowmax = "zero") => dq = "zero"
OnlyKnownClasses == NonFiniteClass \in (IF ZeroScaleGuard THEN {"ok", "near-max"} ELSE {"ok", "zero-row-float8", "near-max"})
=============================================================================
