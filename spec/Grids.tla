------------------------------- MODULE Grids -------------------------------
(* The code grids of quanto's 8-bit qtypes, from first principles, in exact integer
   arithmetic.  A grid is described in *fine units*: every grid value and every
   midpoint between neighbouring grid values is an integer number of fine units.

     qint8        value(c) = c,              c in -128..127       fine unit 2^-2
     qfloat8_e4m3 value(j) = decode of byte j (sign handled separately), j in 0..126
                  subnormal m*2^-9, normal (8+m)*2^(e-7-3), max 448  fine unit 2^-10
     qfloat8_e5m2 j in 0..123, subnormal m*2^-16, normal (4+m)*2^(e-15-2), max 57344
                  fine unit 2^-17; TLC integers are 32 bit, so e5m2 is covered by two
                  windows: "lo" (exponent fields 0..26, fine unit 2^-17) and "hi"
                  (exponent fields 13..30 and saturation, fine unit 2^-5).

   A float8 code is written <<sgn, j>> with j the magnitude index (= byte & 0x7F).    *)
EXTENDS Integers, Sequences, FiniteSets

Abs(x) == IF x < 0 THEN -x ELSE x
Sgn(x) == IF x < 0 THEN -1 ELSE IF x > 0 THEN 1 ELSE 0
Max2(a, b) == IF a > b THEN a ELSE b
Min2(a, b) == IF a < b THEN a ELSE b

QTypes8 == {"qint8", "qfloat8_e4m3fn", "qfloat8_e5m2"}
IsF8(qt) == qt \in {"qfloat8_e4m3fn", "qfloat8_e5m2"}

\* number of mantissa bits / number of finite magnitude indexes
MBits(qt) == IF qt = "qfloat8_e4m3fn" THEN 3 ELSE 2
JMax(qt)  == IF qt = "qfloat8_e4m3fn" THEN 126 ELSE 123          \* 0x7E, 0x7B

\* value of magnitude index j in fine units of window w ("all" for e4m3; "lo"/"hi" for e5m2)
\*   shift(w) = how many low exponent steps the window drops
WShift(qt, w) == IF qt = "qfloat8_e5m2" /\ w = "hi" THEN 12 ELSE 0
F8Fine(qt, w, j) ==
  LET mb == MBits(qt)
      e  == j \div 2^mb
      m  == j % 2^mb
      sh == WShift(qt, w)
  IN IF e = 0 THEN 2 * m                          \* only in windows with shift 0
     ELSE (2^mb + m) * 2^(e - sh)

\* magnitude indexes a window can express exactly (with integral midpoints)
WinJ(qt, w) ==
  IF qt = "qfloat8_e4m3fn" THEN 0..126
  ELSE IF w = "lo" THEN 0..(27 * 4 - 1) ELSE (13 * 4)..123

\* clamp bound in fine units; the "lo" window of e5m2 lies entirely below it (sentinel 2^30)
F8Top(qt, w) == IF qt = "qfloat8_e5m2" /\ w = "lo" THEN 2^30 ELSE F8Fine(qt, w, JMax(qt))
Windows(qt) == IF qt = "qfloat8_e5m2" THEN {"lo", "hi"} ELSE {"all"}

\* log2 of the fine unit of (qt, w)
FineExp(qt, w) == IF qt = "qint8" THEN -2
                  ELSE IF qt = "qfloat8_e4m3fn" THEN -10
                  ELSE IF w = "lo" THEN -17 ELSE -5

\* ---------------------------------------------------------------------------------
\* round-half-even of the rational a/b (b > 0) to an integer
RNE(a, b) ==
  LET fl == a \div b            \* TLC's \div is floor division
      r  == a - fl * b
  IN IF 2 * r < b THEN fl
     ELSE IF 2 * r > b THEN fl + 1
     ELSE IF fl % 2 = 0 THEN fl ELSE fl + 1

Clamp(x, lo, hi) == IF x < lo THEN lo ELSE IF x > hi THEN hi ELSE x

\* ---- qint8 in quarter units ------------------------------------------------------
\* as built (symmetric.py:53-57): q = x/s ; round ; clamp(-128,127) ; cast
Int8AsBuilt(n) == Clamp(RNE(n, 4), -128, 127)
Int8Dist(n, c) == Abs(n - 4 * c)
\* abstract: the set of codes whose value is closest to n quarter-steps
Int8Nearest(n) == {c \in -128..127 : \A d \in {c - 1, c + 1} \cap (-128..127) : Int8Dist(n, c) <= Int8Dist(n, d)}

\* ---- float8 in fine units ----------------------------------------------------------
\* as built: clamp to +-max, then cast (round to nearest grid value, ties to even index)
F8RoundMag(qt, w, a) ==     \* a >= 0, inside the window
  LET js == WinJ(qt, w)
      lo == CHOOSE j \in js : F8Fine(qt, w, j) <= a /\ (j + 1 \notin js \/ F8Fine(qt, w, j + 1) > a)
  IN IF lo + 1 \notin js THEN lo
     ELSE LET dl == a - F8Fine(qt, w, lo)
              dh == F8Fine(qt, w, lo + 1) - a
          IN IF dl < dh THEN lo ELSE IF dh < dl THEN lo + 1 ELSE IF lo % 2 = 0 THEN lo ELSE lo + 1

F8AsBuilt(qt, w, n) ==
  LET top == F8Top(qt, w)
      a   == Min2(Abs(n), top)
  IN <<(IF n < 0 THEN -1 ELSE 1), F8RoundMag(qt, w, a)>>

F8Val(qt, w, code) == code[1] * F8Fine(qt, w, code[2])

\* abstract nearest set over the window's magnitudes (both signs; +-0 are one value)
F8Codes(qt, w) == {<<s, j>> : s \in {-1, 1}, j \in WinJ(qt, w)}
\* neighbours in value order (the distance to n is unimodal along the sorted grid, so a
\* code no worse than its neighbours is a global minimiser)
F8Nb(qt, w, c) ==
  LET js == WinJ(qt, w) IN
  {<<c[1], j>> : j \in {c[2] - 1, c[2] + 1} \cap js} \cup (IF c[2] = 0 THEN {<<-c[1], 1>>} ELSE {})
F8Nearest(qt, w, n) ==
  {c \in F8Codes(qt, w) : \A d \in F8Nb(qt, w, c) : Abs(n - F8Val(qt, w, c)) <= Abs(n - F8Val(qt, w, d))}

\* lattice of interesting points of a float8 window: grid points, midpoints, +-1 fine
\* unit around both, and points beyond the top (hi / all windows only)
F8Lattice(qt, w) ==
  LET js  == WinJ(qt, w)
      pts == UNION {
               LET g == F8Fine(qt, w, j) IN
               IF j + 1 \in js
               THEN LET h == F8Fine(qt, w, j + 1)
                        mid == (g + h) \div 2
                    IN {g, g + 1, mid - 1, mid, mid + 1, h - 1}
               ELSE IF j = JMax(qt) THEN {g, g + 1} ELSE {g}
             : j \in js }
      top == F8Fine(qt, w, JMax(qt))
      beyond == IF JMax(qt) \in js THEN {top + 1, top + (top \div 16), 2 * top, 3 * top + 1} ELSE {}
      pos == pts \cup beyond
  IN pos \cup {-p : p \in pos}

\* directed lattice for qint8, in quarter steps: all quarter points from below the
\* bottom code to above the top code
Int8Lattice == (-4 * 131)..(4 * 130)

\* ---- format facts --------------------------------------------------------------------
Fmts == {"float32", "float16", "bfloat16"}
PBits(fmt) == IF fmt = "float32" THEN 24 ELSE IF fmt = "float16" THEN 11 ELSE 8
EMin(fmt)  == IF fmt = "float16" THEN -14 ELSE -126     \* smallest normal exponent
EMax(fmt)  == IF fmt = "float16" THEN 15 ELSE 127
EtaExp(fmt) == IF fmt = "float32" THEN -149 ELSE IF fmt = "float16" THEN -24 ELSE -133   \* smallest subnormal

RECURSIVE OddPart(_)
OddPart(n) == IF n = 0 THEN 0 ELSE IF n % 2 = 0 THEN OddPart(n \div 2) ELSE n
RECURSIVE Log2Floor(_)
Log2Floor(n) == IF n <= 1 THEN 0 ELSE 1 + Log2Floor(n \div 2)

\* is n * 2^e (n integer) exactly representable as a *normal* number of fmt
Representable(n, e, fmt) ==
  \/ n = 0
  \/ LET a == Abs(n)
         top == Log2Floor(a) + e             \* exponent of the leading bit
         low == e + (Log2Floor(a) - Log2Floor(OddPart(a)))     \* exponent of the lowest set bit
     IN /\ OddPart(a) < 2^PBits(fmt)
        /\ top <= EMax(fmt)
        /\ low >= EMin(fmt)                \* stays clear of subnormals (exact anyway, but keep margin)
=============================================================================
