------------------------------- MODULE QRange -------------------------------
(* Range optimizers (property C03): which elements feed which scale entry, and the value
   of the entry.

   As-built layer: the reduction-dimension formulas of
     AbsmaxOptimizer.optimize   (optimizers/absmax_optimizer.py:31-37)
     MaxOptimizer.optimize      (optimizers/max_optimizer.py:30-32)
     absmax_scale / axis_to_dim (calibrate.py:54-61, tensor/core.py:27-33)
     quantize_weight            (qweight.py:59-61: an axis of size 1 means per-tensor)
   Abstract layer: an element contributes to the scale entry of its own index along the
   kept axis and to no other (Locality), entries are absmax/qmax (FullRange /
   NonSaturating), permuting the kept axis permutes the entries (PermutationEquivariance). *)
EXTENDS Grids, TLC, Json

CONSTANTS RShapes, RPoints

VARIABLES which, shape, axis, t, scales, pc, saved

vars == <<which, shape, axis, t, scales, pc, saved>>

RECURSIVE Prod(_)
Prod(s) == IF s = <<>> THEN 1 ELSE Head(s) * Prod(Tail(s))
RECURSIVE Unravel(_, _)
Unravel(p, s) == IF s = <<>> THEN <<>>
                 ELSE LET rest == Prod(Tail(s)) IN <<p \div rest>> \o Unravel(p % rest, Tail(s))

NoAxis == 99          \* "axis is None" (TLC cannot mix integers and strings in one set)
Rank == Len(shape)
\* as built: the dims (0-based) each implementation reduces over
ReducedDims(w, rank, ax) ==
  IF ax = NoAxis THEN 0..(rank - 1)
  ELSE IF w \in {"absmax_opt", "max_opt"}
       THEN (IF ax = 0 THEN 1..(rank - 1) ELSE 0..(rank - 2))
       ELSE (IF ax = -1 THEN 0..(rank - 2) ELSE (0..(rank - 1)) \ {ax})          \* axis_to_dim
\* abstract: everything but the kept dim
KeptDim(rank, ax) == IF ax = 0 THEN 0 ELSE rank - 1
\* quantize_weight: axis of size one => per-tensor (8-bit qtypes)
EffectiveAxis(w, s, ax) ==
  IF w = "quantize_weight8" /\ ax # NoAxis /\ s[KeptDim(Len(s), ax) + 1] = 1 THEN NoAxis ELSE ax

\* scale entry (tuple of the non-reduced indices) an element feeds
Entry(w, s, ax, p) ==
  LET idx == Unravel(p, s)
      red == ReducedDims(w, Len(s), ax)
  IN [d \in (0..(Len(s) - 1)) \ red |-> idx[d + 1]]
AbsEntry(s, ax, p) ==
  IF ax = NoAxis THEN <<>> ELSE LET idx == Unravel(p, s) IN <<idx[KeptDim(Len(s), ax) + 1]>>

Entries(w, s, ax) == {Entry(w, s, ax, p) : p \in 0..(Prod(s) - 1)}
AbsMaxOf(w, s, ax, tt, e) ==
  LET ps == {p \in 0..(Prod(s) - 1) : Entry(w, s, ax, p) = e}
  IN CHOOSE m \in {Abs(tt[p + 1]) : p \in ps} : \A p \in ps : Abs(tt[p + 1]) <= m

Init ==
  /\ which \in {"absmax_opt", "max_opt", "absmax_scale", "quantize_weight8"}
  /\ shape \in RShapes
  /\ axis \in (IF which = "max_opt" THEN {0, -1} ELSE {NoAxis, 0, -1})
  /\ (axis # NoAxis) => Len(shape) >= 2
  /\ \E c \in 1..3 : t = [p \in 1..Prod(shape) |-> RPoints[((p * c + c) % Len(RPoints)) + 1]]
  /\ scales = <<>> /\ pc = "x" /\ saved = <<>>

\* the range of each entry (absmax; for max_opt the hull is handled by QAff)
Optimize ==
  /\ pc = "x"
  /\ LET ax == EffectiveAxis(which, shape, axis)
         es == Entries(IF which = "quantize_weight8" THEN "absmax_opt" ELSE which, shape, ax)
     IN scales' = [e \in es |-> AbsMaxOf(IF which = "quantize_weight8" THEN "absmax_opt" ELSE which, shape, ax, t, e)]
  /\ pc' = "scaled"
  /\ UNCHANGED <<which, shape, axis, t, saved>>

\* metamorphic steps: change everything except the elements of kept index k
PerturbOthers ==
  /\ pc = "scaled" /\ axis # NoAxis
  /\ \E k \in 0..(shape[KeptDim(Rank, axis) + 1] - 1) :
       /\ saved' = <<k, scales>>
       /\ t' = [p \in 1..Prod(shape) |->
                  IF Unravel(p - 1, shape)[KeptDim(Rank, axis) + 1] = k THEN t[p] ELSE 3 * t[p] + 1000]
  /\ pc' = "x2" /\ scales' = <<>>
  /\ UNCHANGED <<which, shape, axis>>

Reoptimize ==
  /\ pc = "x2"
  /\ LET ax == EffectiveAxis(which, shape, axis)
         w  == IF which = "quantize_weight8" THEN "absmax_opt" ELSE which
     IN scales' = [e \in Entries(w, shape, ax) |-> AbsMaxOf(w, shape, ax, t, e)]
  /\ pc' = "done"
  /\ UNCHANGED <<which, shape, axis, t, saved>>

Next == Optimize \/ PerturbOthers \/ Reoptimize

(* ---- abstract properties ------------------------------------------------------------- *)
\* exactly one entry per kept-axis index, fed by exactly the elements of that index
OneEntryPerIndex ==
  pc \in {"scaled", "done"} =>
    LET ax == EffectiveAxis(which, shape, axis)
        w  == IF which = "quantize_weight8" THEN "absmax_opt" ELSE which
    IN /\ Cardinality(DOMAIN scales) = (IF ax = NoAxis THEN 1 ELSE shape[KeptDim(Rank, ax) + 1])
       /\ \A p, r \in 0..(Prod(shape) - 1) :
            (Entry(w, shape, ax, p) = Entry(w, shape, ax, r)) <=> (AbsEntry(shape, ax, p) = AbsEntry(shape, ax, r))
NonSaturatingAbs ==
  pc \in {"scaled", "done"} =>
    LET ax == EffectiveAxis(which, shape, axis)
        w  == IF which = "quantize_weight8" THEN "absmax_opt" ELSE which
    IN \A p \in 0..(Prod(shape) - 1) : Abs(t[p + 1]) <= scales[Entry(w, shape, ax, p)]
FullRangeAbs ==
  pc \in {"scaled", "done"} =>
    \A e \in DOMAIN scales : \E p \in 0..(Prod(shape) - 1) : Abs(t[p + 1]) = scales[e]
Locality ==
  pc = "done" =>
    LET k == saved[1] old == saved[2]
        ax == EffectiveAxis(which, shape, axis)
    IN ax # NoAxis => \A e \in DOMAIN scales : (e[KeptDim(Rank, ax)] = k) => scales[e] = old[e]

Case == [which |-> which, shape |-> shape, axis |-> axis, t |-> t]
Emit == pc = "scaled" => PrintT(ToJson(Case))

MCRShapes == {<<5>>, <<2, 3>>, <<3, 3>>, <<3, 1>>, <<1, 3>>, <<2, 2, 3>>, <<2, 1, 2, 2>>}
MCRPoints == <<-7, 3, 0, 12, -1, 5, -20, 2, 9, -4, 1>>
=============================================================================
