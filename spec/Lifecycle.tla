----------------------------- MODULE Lifecycle -----------------------------
(* Life-cycle of a quantized model (properties C08 - C13): quantize, forward, calibration
   contexts (global hooks + torch-function mode), freeze, optimizer steps, state_dict save /
   load / requantize, deepcopy.  Structural model: no numbers.  A scale is a *fold* - the
   sequence of <<momentum, batch>> updates that produced it; a quantized weight is the token
   <<version of the float weight, qtype, group-size policy>>; Calib.tla gives folds their
   arithmetic and Trace_Lifecycle evaluates them on logged numbers.

   As-built layer (one action per code step):
     Quantize        quantize.py:33-45 (walk, quantize_module, set_module_by_name), nn/qmodule.py:87-96
     Forward         nn/qmodule.py:236-250 (reads scales, never writes)
     EnterCalib      calibrate.py:106-109 (push mode, register pre and post hook)
     PreHook         calibrate.py:116-126 (input scale: EMA, or adopt the scale of a quantized input)
     PostHook        calibrate.py:128-147 (raw output, EMA of the output scale, re-run forward)
     Streamline      calibrate.py:149-155 (a container's post hook may clear activation_qtype of children)
     ReEnterCalib    the same Calibration object entered again while open (`with c: ... with c:`): a second pair of hooks
     ExitCalib       calibrate.py:111-114 (pop mode, remove both handles) - normal or by exception
     Freeze          nn/qmodule.py:252-256, quantize.py:64-67
     OptStep         an optimizer update of the float weights (frozen weights receive no gradient)
     Save / Load     nn/qmodule.py:138-185, quantize.py:48-61
   Deviations of the pinned tree are switchable (Dev_ constants).                        *)
EXTENDS Integers, Sequences, FiniteSets, TLC, Json

CONSTANTS MaxDepth,
          Focus,                   \* which actions histories are built from ("all" or a property-directed subset)
          Dev_C12_InputMomentum,   \* the pre-hook uses its default argument 0.9, not the context's momentum
          StreamlineTypeTest,      \* TRUE (as built): `QTensor in types` is never true for a QBytesTensor argument, so streamlining never
                                   \* records a consumer and clears the activations of EVERY child; FALSE: the documented intent
          Dev_C10_GroupSizeLost,   \* loading an unfrozen int2/int4 state into a default-quantized / requantize target loses weight_group_size
          Dev_C13_ReentryLeak      \* a Calibration object keeps ONE pair of hook handles: entering the same object again while it is open
                                   \* overwrites them, so the hooks of the first entry are never removed

\* <<"Linear", "Linear">> is instantiated with wide layers (192 -> 256 -> 8), so that int2/int4 weights get group sizes 96 and 128
Archs == {<<"Linear", "Other", "Linear">>, <<"LayerNorm", "Linear">>, <<"Conv2d", "Other", "Conv2d">>, <<"Linear", "LayerNorm", "Linear">>, <<"Linear", "Linear">>}
WQs == {"qint8", "qfloat8", "qint4", "qint2"}
AQs == {"none", "qint8", "qfloat8", "qfloat8_e5m2"}
Momenta == {"m50", "m90", "m25", "m0"}      \* m0: momentum 0, the scale is the range of the last batch
Batches == {"b1", "b2", "b3", "bone"}      \* "bone": a batch whose absmax is exactly the storage maximum (scale = 1.0)
Filters == {"all", "first", "last"}

VARIABLES arch,     \* sequence of module kinds (a chain)
          mods,     \* per position: record (see Fresh)
          ctx,      \* stack of open calibration contexts: <<momentum, streamline>>
          hooks,    \* global hook registry: sequence of [id, live] (one pre + one post hook per entry); a removed entry stays as a
                    \* tombstone while its Calibration object is still open (the object's handles may still point at it)
          modes,    \* torch-function mode stack (context ids)
          saved,    \* abstract state dict or "none"
          prog,     \* history (skeleton)
          pc

vars == <<arch, mods, ctx, hooks, modes, saved, prog, pc>>

Quantizable(kind, aq) == kind \in {"Linear", "Conv2d"} \/ (kind = "LayerNorm" /\ aq # "none")
Fresh(kind) == [kind |-> kind, q |-> FALSE, wq |-> "none", aq |-> "none", frozen |-> FALSE, wver |-> 0,
                gs |-> "none", insc |-> <<>>, outsc |-> <<>>]
Selected(f, i, n) == f = "all" \/ (f = "first" /\ i = 1) \/ (f = "last" /\ i = n)

\* denotation of the weight a forward uses
GsPolicy(m) == IF m.wq \in {"qint4", "qint2"} THEN "auto" ELSE "none"
WeightTok(m) == IF ~m.q \/ m.wq = "none" THEN <<"float", m.wver>> ELSE <<m.wver, m.wq, m.gs>>
\* what an inference computes: per module its weight token and the scales it reads
Denotation == [i \in 1..Len(mods) |-> [w |-> IF mods[i].frozen THEN mods[i].ftok ELSE WeightTok(mods[i]),
                                       aq |-> mods[i].aq, insc |-> mods[i].insc, outsc |-> mods[i].outsc]]

Init ==
  /\ arch \in Archs
  /\ mods = [i \in 1..Len(arch) |-> Fresh(arch[i]) @@ [ftok |-> <<>>]]
  /\ ctx = <<>> /\ hooks = <<>> /\ modes = <<>> /\ saved = [present |-> FALSE]
  /\ prog = <<>> /\ pc = "float"

Log(a) == prog' = Append(prog, a)
Bound == Len(prog) < MaxDepth

(* ---- quantize ------------------------------------------------------------------------------ *)
Quantize(w, a, f) ==
  /\ pc = "float" /\ Bound
  /\ mods' = [i \in 1..Len(mods) |->
               IF Selected(f, i, Len(mods)) /\ Quantizable(mods[i].kind, a)
               THEN [mods[i] EXCEPT !.q = TRUE,
                                    !.wq = IF mods[i].kind = "LayerNorm" THEN "none" ELSE w,
                                    !.aq = a,
                                    !.gs = IF mods[i].kind # "LayerNorm" /\ w \in {"qint4", "qint2"} THEN "auto" ELSE "none"]
               ELSE mods[i]]
  /\ pc' = "quantized" /\ Log([a |-> "Quantize", wq |-> w, aq |-> a, filter |-> f])
  /\ UNCHANGED <<arch, ctx, hooks, modes, saved>>

(* ---- inference ------------------------------------------------------------------------------ *)
\* (hooks that outlived their context still fire: a leak shows up as scales drifting in a later, unrelated forward)
Forward(x) ==
  /\ pc = "quantized" /\ Bound /\ ctx = <<>>
  /\ Log([a |-> "Forward", x |-> x])
  /\ mods' = IF \A k \in 1..Len(hooks) : ~hooks[k].live THEN mods
             ELSE [i \in 1..Len(mods) |-> IF mods[i].q /\ mods[i].aq # "none"
                                          THEN [mods[i] EXCEPT !.insc = Append(@, <<"leaked", x>>), !.outsc = Append(@, <<"leaked", x>>)]
                                          ELSE mods[i]]
  /\ UNCHANGED <<arch, ctx, hooks, modes, saved, pc>>

(* ---- calibration ----------------------------------------------------------------------------- *)
EnterCalib(m, s) ==
  /\ pc = "quantized" /\ Bound /\ Len(ctx) < 2
  /\ LET id == Len(prog) + 1 IN
       /\ ctx' = Append(ctx, [id |-> id, momentum |-> m, streamline |-> s])
       /\ hooks' = Append(hooks, [id |-> id, live |-> TRUE]) /\ modes' = Append(modes, id)
  /\ Log([a |-> "EnterCalib", momentum |-> m, streamline |-> s])
  /\ UNCHANGED <<arch, mods, saved, pc>>

\* the innermost open Calibration object is entered once more: same momentum, same streamline table, a second pair of hooks
ReEnterCalib ==
  /\ pc = "quantized" /\ Bound /\ ctx # <<>> /\ Len(ctx) < 3
  /\ LET c == ctx[Len(ctx)] IN
       /\ ctx' = Append(ctx, c)
       /\ hooks' = Append(hooks, [id |-> c.id, live |-> TRUE]) /\ modes' = Append(modes, c.id)
  /\ Log([a |-> "ReEnterCalib"])
  /\ UNCHANGED <<arch, mods, saved, pc>>

\* __exit__ of the object `id`: remove the hooks its handles point at.  Intended: the pair registered by the matching __enter__
\* (the last live one of this object).  As built (Dev_C13_ReentryLeak): the pair registered by the LAST __enter__ of the object,
\* even when that pair has already been removed (so removed entries stay as tombstones while the object is open).
\* CalibScope.tla checks this protocol on its own for histories of any length.
LiveHooks(hs) == SelectSeq(hs, LAMBDA h : h.live)
IdsOf(cs) == {cs[k].id : k \in 1..Len(cs)}
ExitHooks(hs, id, rest) ==
  LET cand == {k \in 1..Len(hs) : hs[k].id = id /\ (Dev_C13_ReentryLeak \/ hs[k].live)}
      k == CHOOSE k \in cand : \A j \in cand : j <= k
      marked == IF cand = {} THEN hs ELSE [hs EXCEPT ![k].live = FALSE]
  IN SelectSeq(marked, LAMBDA h : h.live \/ (Dev_C13_ReentryLeak /\ h.id \in IdsOf(rest)))
RECURSIVE Unwind(_, _)
Unwind(cs, hs) == IF cs = <<>> THEN hs ELSE LET rest == SubSeq(cs, 1, Len(cs) - 1) IN Unwind(rest, ExitHooks(hs, cs[Len(cs)].id, rest))

\* one batch through the model inside the open context(s): every open context's hooks fire
HookMomentum(c) == IF Dev_C12_InputMomentum THEN "m90" ELSE c.momentum
RECURSIVE FoldAll(_, _, _, _)
FoldAll(fold, cs, b, isInput) ==
  IF cs = <<>> THEN fold
  ELSE FoldAll(Append(fold, <<(IF isInput THEN HookMomentum(Head(cs)) ELSE Head(cs).momentum), b>>), Tail(cs), b, isInput)
\* a module fed by a quantized tensor (its predecessor quantizes its output) adopts that scale instead
FedQuantized(i) == i > 1 /\ mods[i - 1].q /\ mods[i - 1].aq # "none"
\* Streamline (calibrate.py:89-104, 149-155): at the end of a batch the post-hook of the parent container clears
\* activation_qtype of the children whose quantized output was not consumed by a function returning a quantized tensor.
\* Intent: module i keeps its activations iff the next module is a ReLU-like function on an integer qtype.
Streamlining == \E k \in 1..Len(ctx) : ctx[k].streamline
KeepsActivations(i) ==
  IF StreamlineTypeTest THEN FALSE
  ELSE i < Len(mods) /\ mods[i + 1].kind = "Other" /\ mods[i].aq = "qint8"
CalibBatch(b) ==
  /\ pc = "quantized" /\ Bound /\ ctx # <<>>
  /\ mods' = [i \in 1..Len(mods) |->
               IF mods[i].q /\ mods[i].aq # "none"
               THEN [mods[i] EXCEPT !.insc = IF FedQuantized(i) THEN <<<<"adopt", b>>>> ELSE FoldAll(mods[i].insc, ctx, b, TRUE),
                                    !.outsc = FoldAll(mods[i].outsc, ctx, b, FALSE),
                                    !.aq = IF Streamlining /\ ~KeepsActivations(i) THEN "none" ELSE @]
               ELSE mods[i]]
  /\ Log([a |-> "CalibBatch", batch |-> b])
  /\ UNCHANGED <<arch, ctx, hooks, modes, saved, pc>>

\* a forward inside the context raises in module k: modules before k have been updated
RaiseIn(b, k) ==
  /\ pc = "quantized" /\ Bound /\ ctx # <<>> /\ k \in 1..Len(mods)
  /\ mods' = [i \in 1..Len(mods) |->
               IF i < k /\ mods[i].q /\ mods[i].aq # "none"
               THEN [mods[i] EXCEPT !.insc = IF FedQuantized(i) THEN <<<<"adopt", b>>>> ELSE FoldAll(mods[i].insc, ctx, b, TRUE),
                                    !.outsc = FoldAll(mods[i].outsc, ctx, b, FALSE)]
               ELSE mods[i]]
  \* the exception unwinds every open context
  /\ ctx' = <<>> /\ hooks' = Unwind(ctx, hooks) /\ modes' = <<>>
  /\ Log([a |-> "RaiseIn", batch |-> b, k |-> k])
  /\ UNCHANGED <<arch, saved, pc>>

ExitCalib ==
  /\ ctx # <<>> /\ Bound
  /\ ctx' = SubSeq(ctx, 1, Len(ctx) - 1) /\ modes' = SubSeq(modes, 1, Len(modes) - 1)
  /\ hooks' = ExitHooks(hooks, ctx[Len(ctx)].id, ctx')
  /\ Log([a |-> "ExitCalib"])
  /\ UNCHANGED <<arch, mods, saved, pc>>

(* ---- freeze / training ------------------------------------------------------------------------- *)
Freeze ==
  /\ pc = "quantized" /\ Bound /\ ctx = <<>>
  /\ mods' = [i \in 1..Len(mods) |->
               IF mods[i].q /\ mods[i].wq # "none" /\ ~mods[i].frozen
               THEN [mods[i] EXCEPT !.frozen = TRUE, !.ftok = WeightTok(mods[i])] ELSE mods[i]]
  /\ Log([a |-> "Freeze"])
  /\ UNCHANGED <<arch, ctx, hooks, modes, saved, pc>>

\* via: how the update reaches the parameter - in place under no_grad, through `.data` (the tensor's version counter does not
\* move), or by copying new values into it.  All three give the module new float weights.
OptStep(via) ==
  /\ pc = "quantized" /\ Bound /\ ctx = <<>>
  /\ mods' = [i \in 1..Len(mods) |-> IF mods[i].frozen THEN mods[i] ELSE [mods[i] EXCEPT !.wver = @ + 1]]
  /\ Log([a |-> "OptStep", via |-> via])
  /\ UNCHANGED <<arch, ctx, hooks, modes, saved, pc>>

(* ---- serialisation -------------------------------------------------------------------------------- *)
Save(ser) ==
  /\ pc = "quantized" /\ Bound /\ ctx = <<>>
  /\ saved' = [present |-> TRUE, mods |-> mods, ser |-> ser]
  /\ Log([a |-> "Save", ser |-> ser])
  /\ UNCHANGED <<arch, mods, ctx, hooks, modes, pc>>

\* loading the saved state into a fresh model of the same architecture
LoadedModule(sm, target) ==
  LET lostgs == Dev_C10_GroupSizeLost /\ target \in {"default", "requantize"} /\ ~sm.frozen /\ sm.gs = "auto"
  IN [sm EXCEPT !.gs = IF lostgs THEN "none" ELSE @]
Load(target) ==
  /\ pc = "quantized" /\ Bound /\ ctx = <<>> /\ saved.present
  \* a filtered quantization can only be reloaded into a model quantized with the same filter
  /\ (target \in {"default", "requantize"}) => prog[1].filter = "all"
  /\ mods' = [i \in 1..Len(mods) |-> LoadedModule(saved.mods[i], target)]
  /\ Log([a |-> "Load", target |-> target])
  /\ UNCHANGED <<arch, ctx, hooks, modes, saved, pc>>

DeepCopy ==
  /\ pc = "quantized" /\ Bound /\ ctx = <<>>
  /\ Log([a |-> "DeepCopy"])
  /\ UNCHANGED <<arch, mods, ctx, hooks, modes, saved, pc>>

\* model.to(device): torch re-creates or swaps every parameter and buffer through its _apply machinery (for the quantized tensor
\* subclasses: _to_copy on the inner tensors, then swap_tensors / a new Parameter). Only the CPU exists here, so the move is to
\* the device the model is on: still the full _apply path for frozen (QTensor) weights.
ToDevice ==
  /\ pc = "quantized" /\ Bound /\ ctx = <<>>
  /\ Log([a |-> "ToDevice"])
  /\ UNCHANGED <<arch, mods, ctx, hooks, modes, saved, pc>>

\* calls of the tensor-level library (quantize_weight, quantize_activation, absmax_scale) on float tensors:
\* read-only, whether or not a calibration context is open
LibCall ==
  /\ pc = "quantized" /\ Bound
  /\ Log([a |-> "LibCall"])
  /\ UNCHANGED <<arch, mods, ctx, hooks, modes, saved, pc>>

\* a batch through ANOTHER quantized model while our contexts are open: the global hooks see its modules,
\* ours are not touched
ForeignBatch ==
  /\ pc = "quantized" /\ Bound /\ ctx # <<>>
  /\ Log([a |-> "ForeignBatch"])
  /\ UNCHANGED <<arch, mods, ctx, hooks, modes, saved, pc>>

ActionsOf(f) ==
  CASE f = "calib"  -> {"Quantize", "EnterCalib", "ReEnterCalib", "CalibBatch", "ExitCalib", "Forward", "RaiseIn"}
    [] f = "serial" -> {"Quantize", "EnterCalib", "CalibBatch", "ExitCalib", "Freeze", "Save", "Load", "Forward"}
    [] f = "freeze" -> {"Quantize", "EnterCalib", "CalibBatch", "ExitCalib", "Freeze", "DeepCopy", "ToDevice", "Forward"}
    [] f = "train"  -> {"Quantize", "OptStep", "Forward", "Freeze"}
    [] OTHER        -> {"Quantize", "EnterCalib", "ReEnterCalib", "CalibBatch", "ExitCalib", "Forward", "RaiseIn", "Freeze", "Save", "Load", "DeepCopy", "ToDevice", "OptStep", "LibCall", "ForeignBatch"}
On(a) == a \in ActionsOf(Focus)

ActQuantize   == \E w \in WQs, a \in AQs, f \in Filters : Quantize(w, a, f)
ActForward    == On("Forward") /\ \E x \in {"x1", "x2"} : Forward(x)
ActEnterCalib == On("EnterCalib") /\ \E m \in Momenta, s \in BOOLEAN : EnterCalib(m, s)
ActReEnter    == On("ReEnterCalib") /\ ReEnterCalib
ActCalibBatch == On("CalibBatch") /\ \E b \in Batches : CalibBatch(b)
ActRaiseIn    == On("RaiseIn") /\ \E b \in Batches, k \in 1..3 : RaiseIn(b, k)
ActExitCalib  == On("ExitCalib") /\ ExitCalib
ActFreeze     == On("Freeze") /\ Freeze
ActOptStep    == On("OptStep") /\ \E v \in {"inplace", "data", "copy"} : OptStep(v)
ActDeepCopy   == On("DeepCopy") /\ DeepCopy
ActToDevice   == On("ToDevice") /\ ToDevice
ActLibCall    == On("LibCall") /\ LibCall
ActForeign    == On("ForeignBatch") /\ ForeignBatch
ActSave       == On("Save") /\ \E s \in {"none", "pickle", "weights_only", "safetensors"} : Save(s)
\* "otherq": the target was quantized with another weight qtype than the saved model (the state_dict decides)
ActLoad       == On("Load") /\ \E t \in {"default", "same", "requantize", "otherq"} : Load(t)

Next == ActQuantize \/ ActForward \/ ActEnterCalib \/ ActReEnter \/ ActCalibBatch \/ ActRaiseIn \/ ActExitCalib
        \/ ActFreeze \/ ActOptStep \/ ActDeepCopy \/ ActToDevice \/ ActSave \/ ActLoad \/ ActLibCall \/ ActForeign

(* ---- abstract properties ------------------------------------------------------------------------------ *)
\* C08: exactly the eligible, selected modules are swapped; the others are untouched
SwapExactlyEligible ==
  (pc = "quantized" /\ Len(prog) >= 1 /\ prog[1].a = "Quantize") =>
     \A i \in 1..Len(mods) :
        mods[i].q <=> (Selected(prog[1].filter, i, Len(mods)) /\ Quantizable(arch[i], prog[1].aq))
\* C09: freeze does not change what inference computes; freezing twice changes nothing; neither do moves and copies
MovePreservesDenotation == [][(Len(prog') = Len(prog) + 1 /\ prog'[Len(prog')].a \in {"ToDevice", "DeepCopy"}) => Denotation' = Denotation]_vars
FreezePreservesDenotation == [][(\E n \in 1..1 : Len(prog') = Len(prog) + 1 /\ prog'[Len(prog')].a = "Freeze") => Denotation' = Denotation]_vars
FrozenNeverStale == \A i \in 1..Len(mods) : mods[i].frozen => (mods[i].ftok[1] <= mods[i].wver)
\* C11: until frozen every forward uses the current float weights; frozen weights are never updated
NoStaleWeights == \A i \in 1..Len(mods) : (mods[i].q /\ ~mods[i].frozen /\ mods[i].wq # "none") => WeightTok(mods[i])[1] = mods[i].wver
FrozenNoGrad == [][(Len(prog') = Len(prog) + 1 /\ prog'[Len(prog')].a = "OptStep") =>
                       \A i \in 1..Len(mods) : mods[i].frozen => mods'[i] = mods[i]]_vars
\* C12: every input / output scale is the fold of exactly the batches seen, each with the momentum of its context
ContextMomenta == {c.momentum : c \in {ctx[k] : k \in 1..Len(ctx)}}
EmaLawStep ==
  [][\A b \in Batches :
       (Len(prog') = Len(prog) + 1 /\ prog'[Len(prog')] = [a |-> "CalibBatch", batch |-> b] /\ Len(ctx) = 1) =>
          \A i \in 1..Len(mods) :
             (mods[i].q /\ mods[i].aq # "none") =>
                /\ mods'[i].outsc = Append(mods[i].outsc, <<ctx[1].momentum, b>>)
                /\ (~FedQuantized(i)) => mods'[i].insc = Append(mods[i].insc, <<ctx[1].momentum, b>>)]_vars
\* C13: the registries mirror the open contexts, so leaving every context restores them
CalibrationScoped == Len(LiveHooks(hooks)) = Len(ctx) /\ Len(modes) = Len(ctx) /\ (ctx = <<>> => (hooks = <<>> /\ modes = <<>>))
\* growth beyond the listed properties (evidence only): with streamlining as documented, a module whose quantized output
\* is consumed by a quantization-preserving function keeps quantizing its activations
StreamlineKeepsConsumers ==
  [][\A b \in Batches :
       (Len(prog') = Len(prog) + 1 /\ prog'[Len(prog')] = [a |-> "CalibBatch", batch |-> b] /\ Streamlining) =>
          \A i \in 1..Len(mods) :
             (mods[i].q /\ mods[i].aq = "qint8" /\ i < Len(mods) /\ mods[i + 1].kind = "Other") => mods'[i].aq = "qint8"]_vars
InferencePure == [][(Len(prog') = Len(prog) + 1 /\ prog'[Len(prog')].a \in {"Forward", "DeepCopy", "ToDevice", "Save", "LibCall", "ForeignBatch"}) => mods' = mods]_vars
\* C10: a load restores the denotation that was saved
RoundTripDenotation ==
  [][(Len(prog') = Len(prog) + 1 /\ prog'[Len(prog')].a = "Load") => mods' = saved.mods]_vars

Terminal == Len(prog) = MaxDepth
View == <<arch, mods, ctx, hooks, modes, saved, pc, Len(prog)>>
Emit == (Terminal \/ (Len(prog) >= 3 /\ ctx = <<>> /\ prog[Len(prog)].a \in {"Load", "Freeze", "RaiseIn", "ExitCalib"})) => PrintT(ToJson([arch |-> arch, prog |-> prog]))
Spec == Init /\ [][Next]_vars
=============================================================================
