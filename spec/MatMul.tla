------------------------------- MODULE MatMul -------------------------------
(* Quantized linear / mm / bmm (property C07): which kernel route runs and what it must
   compute.

   As-built layer:
     LinearPath  QTensorLinear.forward (tensor/qtensor_func.py:93-121): which kernel by weight class
     Route       quanto::qbytes_mm on CPU (library/qbytes_mm.py:91-104) and the aten.mm / aten.bmm
                 implementations (tensor/qbytes_ops.py:169-214)
     MMDtype     the float format the contraction is carried out in (qbytes_mm.py:25-33)
   Operands come from closed-form families, so the exact product is an integer that TLC
   computes itself:  out[i][j] = Dot(fam, i, j, K) * 2^(ea + ew(j)) + bias(j) * 2^eb.
   Abstract layer: ExactOnExactDomain, FiniteIfRepresentable, ResultDtype, ResultShape,
   NoIntermediateOverflow (the typed pipeline never leaves the finite range when the result
   is representable).                                                                    *)
EXTENDS Integers, Sequences, FiniteSets, TLC, Json

CONSTANTS Sizes,                 \* <<rows, K, N, batch rank>> explored (both sides of every threshold)
          Dev_C07_F16Float8      \* TRUE: float8 x float8 contractions are carried out in float16 (pinned tree)

Dtypes == {"float32", "float16", "bfloat16"}
Acts == {"float", "qint8", "qfloat8_e4m3fn", "qfloat8_e5m2"}
WQs == {"qint8", "qfloat8_e4m3fn", "qfloat8_e5m2", "qint4", "qint2"}
Fams == {"onehot", "alt", "ramp", "sat", "big8", "bigf", "bigm"}

VARIABLES cfg, route, pc
vars == <<cfg, route, pc>>

IsF8(q) == q \in {"qfloat8_e4m3fn", "qfloat8_e5m2"}
PBits(fmt) == IF fmt = "float32" THEN 24 ELSE IF fmt = "float16" THEN 11 ELSE 8
\* log2 of (roughly) the largest finite value
MaxExp(fmt) == IF fmt = "float16" THEN 16 ELSE 128
MaxCode(q) == CASE q = "qint8" -> 128 [] q = "qfloat8_e4m3fn" -> 448 [] q = "qfloat8_e5m2" -> 57344 [] q = "qint4" -> 15 [] q = "qint2" -> 3 [] OTHER -> 4

(* ---- as built: which path / route ---------------------------------------------------------- *)
\* QTensorLinear.forward: weight class decides
LinearPath(c) == IF c.wq \in {"qint4", "qint2"} THEN "matmul_fallback" ELSE "qbytes_mm"

\* storage dtype the kernel sees for activations and weights
ActStorage(c) == IF c.act = "float" THEN c.dtype ELSE IF c.act = "qint8" THEN "int8" ELSE "float8"
WStorage(c) == IF c.wq = "qint8" THEN "int8" ELSE "float8"

\* quanto::qbytes_mm CPU implementation
Route(c) ==
  IF LinearPath(c) = "matmul_fallback" THEN "float_matmul"
  ELSE IF ActStorage(c) = "int8" /\ WStorage(c) = "int8" THEN "int_mm"
  ELSE IF ActStorage(c) = "bfloat16" /\ WStorage(c) = "int8" /\ c.K % 4 = 0 THEN "int8pack"
  ELSE "default"

\* format in which the default route contracts (promote to float32 if an operand is int8)
MMDtype(c) ==
  CASE Route(c) = "int_mm" -> "int32"
    [] Route(c) = "int8pack" -> "bfloat16"
    [] Route(c) = "float_matmul" -> c.dtype
    [] OTHER -> IF ActStorage(c) = "int8" \/ WStorage(c) = "int8" THEN "float32"
                ELSE IF Dev_C07_F16Float8 THEN c.dtype ELSE (IF c.dtype = "float16" THEN "float32" ELSE c.dtype)

(* ---- operand families (integers) -------------------------------------------------------------- *)
A(fam, i, k, K) ==
  CASE fam = "onehot" -> IF k = (7 * i) % K THEN (i % 3) + 1 ELSE 0
    [] fam = "alt"    -> (IF k % 2 = 0 THEN 1 ELSE -1) * (1 + (i % 2))
    [] fam = "ramp"   -> ((k + i) % 4) - 1
    [] fam = "sat"    -> IF (i + k) % 2 = 0 THEN 127 ELSE -128
    [] fam = "big8"   -> IF (i + k) % 2 = 0 THEN 384 ELSE -320          \* large float8 codes (both formats hold them exactly)
    [] fam = "bigf"   -> 128                                              \* float activations of realistic magnitude (16.0)
    [] fam = "bigm"   -> IF (i + k) % 4 = 3 THEN -128 ELSE 127           \* saturating int8 activation codes (mostly one sign)
W8(fam, j, k) ==
  CASE fam = "onehot" -> ((j + 2 * k) % 5) - 2
    [] fam = "alt"    -> (j % 3) - 1
    [] fam = "ramp"   -> ((j + k) % 3) - 1
    [] fam = "sat"    -> IF (j + k) % 3 = 0 THEN -128 ELSE 127
    [] fam = "big8"   -> IF (j + k) % 3 = 0 THEN -384 ELSE 256
    [] fam = "bigf"   -> 127 - (j % 3)                                    \* codes at the top of the int8 range
    [] fam = "bigm"   -> IF (j + k) % 5 = 0 THEN -256 ELSE 384            \* large float8 weight codes
\* packed low-bit weights: every row holds its extreme codes (so the range is exactly 2^bits - 1
\* steps and the scale the optimizer picks is the power of two EW) and values inside the range
LoOf(q) == IF q = "qint4" THEN -7 ELSE -1
HiOf(q) == IF q = "qint4" THEN 8 ELSE 2
ClampI(x, lo, hi) == IF x < lo THEN lo ELSE IF x > hi THEN hi ELSE x
W(c, j, k) ==
  IF c.wq \in {"qint4", "qint2"}
  THEN (IF k = 0 THEN LoOf(c.wq) ELSE IF k = 1 THEN HiOf(c.wq) ELSE ClampI(W8(c.fam, j, k), LoOf(c.wq), HiOf(c.wq)))
  ELSE W8(c.fam, j, k)
LowBit(c) == c.wq \in {"qint4", "qint2"}
Bias(j) == (j % 5) - 2

RECURSIVE SumK(_, _, _, _)
SumK(c, i, j, k) == IF k < 0 THEN 0 ELSE A(c.fam, i, k, c.K) * W(c, j, k) + SumK(c, i, j, k - 1)
AbsI(x) == IF x < 0 THEN -x ELSE x
RECURSIVE AbsSumK(_, _, _, _)
AbsSumK(c, i, j, k) == IF k < 0 THEN 0 ELSE AbsI(A(c.fam, i, k, c.K) * W(c, j, k)) + AbsSumK(c, i, j, k - 1)

\* closed forms where the family has one (any K), the generic sum otherwise
Dot(c, i, j) ==
  IF LowBit(c) THEN SumK(c, i, j, c.K - 1)
  ELSE CASE c.fam = "onehot" -> ((i % 3) + 1) * W(c, j, (7 * i) % c.K)
         [] c.fam = "alt"    -> (1 + (i % 2)) * ((j % 3) - 1) * (c.K % 2)
         [] c.fam = "bigf"   -> 128 * (127 - (j % 3)) * c.K
         [] OTHER            -> SumK(c, i, j, c.K - 1)
AbsDot(c, i, j) ==
  IF LowBit(c) THEN AbsSumK(c, i, j, c.K - 1)
  ELSE CASE c.fam = "onehot" -> AbsI(Dot(c, i, j))
         [] c.fam = "alt"    -> (1 + (i % 2)) * AbsI((j % 3) - 1) * c.K
         [] c.fam = "bigf"   -> 128 * (127 - (j % 3)) * c.K
         [] OTHER            -> AbsSumK(c, i, j, c.K - 1)

\* weight scale exponent per output feature (per-axis: distinct; per-tensor: constant)
EW(c, j) == IF c.waxis = "per-axis" THEN -6 - (j % 3) ELSE -6
EA == -3
EB == -7

(* ---- exact domain ------------------------------------------------------------------------------- *)
\* every partial sum is an integer below 2^p of the contraction format, and the final value
\* (product scaled, plus bias) fits the output format
AccBits(c) == IF MMDtype(c) = "int32" THEN 31 ELSE PBits(MMDtype(c))
ExactElem(c, i, j) ==
  LET ad == AbsDot(c, i, j)
      sh == (EA + EW(c, j)) - EB                       \* product exponent relative to the bias exponent
      tot == IF sh >= 0 THEN ad * 2^sh + AbsI(Bias(j)) ELSE ad + AbsI(Bias(j)) * 2^(-sh)
  IN /\ (AccBits(c) >= 31 \/ ad < 2^AccBits(c))
     /\ (IF c.bias THEN tot ELSE ad) < 2^PBits(c.dtype)
     /\ ad < 2^24                                       \* int32 -> float32 conversion on the integer route

(* ---- typed pipeline: does an intermediate leave the finite range? -------------------------------- *)
\* log2 bound of |sum of K products of codes| in the contraction format
RECURSIVE Log2Ceil(_)
Log2Ceil(n) == IF n <= 1 THEN 0 ELSE 1 + Log2Ceil((n + 1) \div 2)
CodeMagBits(c) == Log2Ceil(MaxCode(IF c.act = "float" THEN "plain" ELSE c.act)) + Log2Ceil(MaxCode(c.wq)) + Log2Ceil(c.K)
IntermediateOverflowPossible(c) ==
  LinearPath(c) = "qbytes_mm" /\ c.act # "float" /\ MMDtype(c) \notin {"int32"} /\ CodeMagBits(c) > MaxExp(MMDtype(c))
NoIntermediateOverflow == pc = "routed" => ~IntermediateOverflowPossible(cfg)

(* ---- state machine --------------------------------------------------------------------------------- *)
FamOf(d, a, w, sz) ==      \* one operand family per configuration, rotating
  IF sz[2] > 64 THEN       \* large K: only families whose product has a closed form (TLC evaluates it per output element)
     (IF a = "float" /\ w = "qint8" THEN "bigf" ELSE <<"onehot", "alt">>[((sz[1] + sz[3]) % 2) + 1])
  ELSE IF a = "qint8" /\ w = "qint8" /\ (sz[2] + sz[3]) % 2 = 0 THEN "sat"
  ELSE IF IsF8(a) /\ IsF8(w) /\ (sz[1] + sz[3]) % 2 = 1 THEN "big8"
  ELSE IF a = "float" /\ w = "qint8" /\ sz[2] >= 32 THEN "bigf"
  ELSE IF a = "qint8" /\ IsF8(w) /\ (sz[1] + sz[2]) % 2 = 0 THEN "bigm"
  ELSE <<"onehot", "alt", "ramp">>[((sz[1] + sz[2] + sz[3] + (IF d = "float16" THEN 1 ELSE 0) + (IF a = "float" THEN 1 ELSE 0)) % 3) + 1]
Init ==
  /\ \E d \in Dtypes, a \in Acts, w \in WQs, wa \in {"per-axis", "per-tensor"}, sz \in Sizes, b \in BOOLEAN :
       /\ (wa = "per-tensor") => w \in {"qint8", "qfloat8_e4m3fn", "qfloat8_e5m2"}
       /\ (w \in {"qint4", "qint2"}) => (sz[2] >= 2 /\ sz[2] <= 64)
       /\ cfg = [dtype |-> d, act |-> a, wq |-> w, waxis |-> wa, rows |-> sz[1], K |-> sz[2], N |-> sz[3], brank |-> sz[4],
                 bias |-> b, fam |-> FamOf(d, a, w, sz)]
  /\ route = "none" /\ pc = "call"

DoRoute == /\ pc = "call" /\ route' = Route(cfg) /\ pc' = "routed" /\ UNCHANGED cfg
Next == DoRoute

RouteTotal == pc = "routed" => route \in {"int_mm", "int8pack", "default", "float_matmul"}
IntMMOnlyInt8Pair == (pc = "routed" /\ route = "int_mm") => (cfg.act = "qint8" /\ cfg.wq = "qint8")
PackOnlyBf16 == (pc = "routed" /\ route = "int8pack") => (cfg.dtype = "bfloat16" /\ cfg.act = "float" /\ cfg.wq = "qint8")
LowBitFallsBack == (pc = "routed" /\ cfg.wq \in {"qint4", "qint2"}) => route = "float_matmul"

Case == [cfg |-> cfg, route |-> route, mmdtype |-> MMDtype(cfg)]
Emit == pc = "routed" => PrintT(ToJson(Case))

\* rows: both sides of 16/17 and multiples of 8; K: multiples of 4 / 16 / not; N likewise
MCSizes == {<<1, 8, 8, 1>>, <<1, 3, 5, 2>>, <<8, 4, 8, 2>>, <<16, 16, 16, 2>>, <<17, 16, 8, 2>>, <<24, 32, 16, 2>>, <<24, 36, 5, 2>>,
            <<4, 12, 3, 3>>, <<18, 16, 16, 3>>, <<2, 1, 1, 2>>, <<3, 64, 2, 2>>, <<3, 1, 5, 2>>}
MCSizesT == MCSizes \cup {<<64, 128, 32, 2>>, <<17, 512, 8, 2>>, <<8, 48, 64, 3>>, <<32, 20, 24, 3>>, <<1, 512, 16, 1>>, <<40, 8, 40, 2>>}
=============================================================================
