INIT Init
NEXT Next
CONSTANTS
  MaxRows = 17
  Trails = {1, 3, 6}
  Codings <- MCCodings
INVARIANT Dense
INVARIANT BytesOK
INVARIANT RoundTrip
INVARIANT KernelsAgree
INVARIANT AllBytesCovered
CHECK_DEADLOCK FALSE
