-------------------------------- MODULE Exact --------------------------------
(* Exact integer arithmetic beyond TLC's 32-bit integers.

   BigNat : little-endian sequence of limbs in 0..B-1, B = 2^14, no trailing zero limb
            (zero is <<>>).  Limb products stay below 2^28, so nothing overflows.
   BigInt : [s |-> -1 | 0 | 1, m |-> BigNat]
   Traces carry every real number of an event as a BigInt at an exponent chosen by the
   harness (value = s * m * 2^E); the specification only ever compares, adds, subtracts,
   shifts and multiplies these integers - no floating point anywhere.                  *)
EXTENDS Integers, Sequences

B == 16384
LB == 14

RECURSIVE BNorm(_)
BNorm(a) == IF a = <<>> THEN <<>>
            ELSE IF a[Len(a)] = 0 THEN BNorm(SubSeq(a, 1, Len(a) - 1)) ELSE a

Limb(a, i) == IF i <= Len(a) THEN a[i] ELSE 0
MaxI(x, y) == IF x > y THEN x ELSE y

\* comparison: -1, 0, 1
RECURSIVE BCmpFrom(_, _, _)
BCmpFrom(a, b, i) == IF i = 0 THEN 0
                     ELSE IF a[i] < b[i] THEN -1 ELSE IF a[i] > b[i] THEN 1 ELSE BCmpFrom(a, b, i - 1)
BCmp(a, b) == IF Len(a) < Len(b) THEN -1 ELSE IF Len(a) > Len(b) THEN 1 ELSE BCmpFrom(a, b, Len(a))
BLe(a, b) == BCmp(a, b) <= 0
BLt(a, b) == BCmp(a, b) < 0

RECURSIVE BAddC(_, _, _, _, _)
BAddC(a, b, i, n, c) == IF i > n THEN (IF c = 0 THEN <<>> ELSE <<c>>)
                        ELSE LET t == Limb(a, i) + Limb(b, i) + c
                             IN <<t % B>> \o BAddC(a, b, i + 1, n, t \div B)
BAdd(a, b) == BAddC(a, b, 1, MaxI(Len(a), Len(b)), 0)

\* a - b for a >= b
RECURSIVE BSubC(_, _, _, _)
BSubC(a, b, i, br) == IF i > Len(a) THEN <<>>
                      ELSE LET t == a[i] - Limb(b, i) - br
                           IN IF t < 0 THEN <<t + B>> \o BSubC(a, b, i + 1, 1)
                                       ELSE <<t>> \o BSubC(a, b, i + 1, 0)
BSub(a, b) == BNorm(BSubC(a, b, 1, 0))
BAbsDiff(a, b) == IF BLe(b, a) THEN BSub(a, b) ELSE BSub(b, a)

\* a * k for 0 <= k < 2^16
RECURSIVE BMulSC(_, _, _, _)
BMulSC(a, k, i, c) == IF i > Len(a) THEN (IF c = 0 THEN <<>> ELSE IF c < B THEN <<c>> ELSE <<c % B, c \div B>>)
                      ELSE LET t == a[i] * k + c
                           IN <<t % B>> \o BMulSC(a, k, i + 1, t \div B)
BMulS(a, k) == IF k = 0 \/ a = <<>> THEN <<>> ELSE BMulSC(a, k, 1, 0)

RECURSIVE Zeros(_)
Zeros(n) == IF n <= 0 THEN <<>> ELSE <<0>> \o Zeros(n - 1)
BShlLimbs(a, n) == IF a = <<>> THEN <<>> ELSE Zeros(n) \o a
BShrLimbs(a, n) == IF n >= Len(a) THEN <<>> ELSE SubSeq(a, n + 1, Len(a))

\* shift by bits
BShl(a, n) == BShlLimbs(BMulS(a, 2^(n % LB)), n \div LB)
RECURSIVE BDivSC(_, _, _, _)
\* floor(a / 2^r) for 0 < r < 14, processing limbs from the top; i = current index, c = carry-in remainder
BDivSC(a, r, i, c) == IF i = 0 THEN <<>>
                      ELSE LET t == c * B + a[i]
                           IN BDivSC(a, r, i - 1, t % 2^r) \o <<t \div 2^r>>
BShr(a, n) == LET l == BShrLimbs(a, n \div LB)
                  r == n % LB
              IN IF r = 0 THEN l ELSE BNorm(BDivSC(l, r, Len(l), 0))
\* ceil(a / 2^n)
BShrCeil(a, n) == LET f == BShr(a, n) IN IF BShl(f, n) = a THEN f ELSE BAdd(f, <<1>>)

\* general product (schoolbook over the limbs of b)
RECURSIVE BMulAcc(_, _, _)
BMulAcc(a, b, i) == IF i > Len(b) THEN <<>>
                    ELSE BAdd(BShlLimbs(BMulS(a, b[i]), i - 1), BMulAcc(a, b, i + 1))
BMul(a, b) == IF a = <<>> \/ b = <<>> THEN <<>> ELSE BMulAcc(a, b, 1)

BOfInt(k) == IF k = 0 THEN <<>> ELSE IF k < B THEN <<k>> ELSE IF k < B * B THEN <<k % B, k \div B>>
             ELSE <<k % B, (k \div B) % B, k \div (B * B)>>
BMax(a, b) == IF BLe(a, b) THEN b ELSE a
BMin(a, b) == IF BLe(a, b) THEN a ELSE b
BIsNat(a) == \A i \in 1..Len(a) : a[i] \in 0..(B - 1)

(* ---- signed ---------------------------------------------------------------------------- *)
SZero == [s |-> 0, m |-> <<>>]
SMk(sg, m) == IF m = <<>> THEN SZero ELSE [s |-> sg, m |-> m]
SNeg(x) == [s |-> -x.s, m |-> x.m]
SAbs(x) == x.m
SAdd(x, y) ==
  IF x.s = 0 THEN y ELSE IF y.s = 0 THEN x
  ELSE IF x.s = y.s THEN [s |-> x.s, m |-> BAdd(x.m, y.m)]
  ELSE LET c == BCmp(x.m, y.m) IN
       IF c = 0 THEN SZero
       ELSE IF c > 0 THEN [s |-> x.s, m |-> BSub(x.m, y.m)] ELSE [s |-> y.s, m |-> BSub(y.m, x.m)]
SSub(x, y) == SAdd(x, SNeg(y))
SDist(x, y) == SAbs(SSub(x, y))                   \* |x - y| as BigNat
SMulI(x, k) == IF k = 0 THEN SZero                \* k small integer (|k| < 2^16)
               ELSE SMk(IF k < 0 THEN -x.s ELSE x.s, BMulS(x.m, IF k < 0 THEN -k ELSE k))
SShl(x, n) == SMk(x.s, BShl(x.m, n))
SCmp(x, y) == IF x.s # y.s THEN (IF x.s < y.s THEN -1 ELSE 1)
              ELSE IF x.s = 0 THEN 0 ELSE x.s * BCmp(x.m, y.m)
SLe(x, y) == SCmp(x, y) <= 0
SOfInt(k) == IF k = 0 THEN SZero ELSE [s |-> (IF k < 0 THEN -1 ELSE 1), m |-> BOfInt(IF k < 0 THEN -k ELSE k)]
SIsInt(x) == x.s \in {-1, 0, 1} /\ BIsNat(x.m) /\ (x.s = 0 <=> x.m = <<>>) /\ (x.m = <<>> \/ x.m[Len(x.m)] # 0)
=============================================================================
