------------------------- MODULE Trace_TensorOps -------------------------
(* Validates executed programs of tensor operations (one trace per program, one event per
   operation) against the abstract layer of TensorOps:

     NoSpuriousRaise  a step whose float twin is valid does not raise (documented refusals excepted)
     WellFormed       (C06) reported shape/dtype = those of the dequantized value = those of the
                      float twin; one code per element; scale laid out along the declared axis;
                      storage type of the qtype = payload dtype
     OpEquivalence    (C05) dequantize(result) vs the same operation on the dequantized operands:
                      exact / float rounding / one step of the output grid, by operation class
     MovesKeepCodes, DtypeMoveOnlyScale (C06)

   Values are BigInts at a per-event exponent (Exact.tla).  The as-built prediction
   (TensorOps!QSem) is compared as well; a difference there alone is drift.              *)
EXTENDS TensorOps, Exact, TLCExt, IOUtils

Tr == JsonDeserialize(IOEnv.TRACE_FILE)
VARIABLES tid, l, drift, dev, tainted
CONSTANTS Judge          \* "C05" (values, raises) or "C06" (metadata, moves): which clauses give the verdict

Ev == Tr[tid][l]
Is(a) == l <= Len(Tr[tid]) /\ Ev.act = a

PBits(fmt) == IF fmt = "float32" THEN 24 ELSE IF fmt = "float16" THEN 11 ELSE 8
EtaExp(fmt) == IF fmt = "float32" THEN -149 ELSE IF fmt = "float16" THEN -24 ELSE -133
URel(a, k, p) == BShrCeil(BMulS(a, k), p)
Pow2Ceil(n) == IF n <= 0 THEN <<1>> ELSE BShl(<<1>>, n)
MinI2(a, b) == IF a < b THEN a ELSE b

IsQK(k) == k \in {"QBytes", "QBits"}
Fin(x) == x.s # 2

(* ---- operation classes --------------------------------------------------------------------- *)
ExactOps == {"view", "transpose", "t", "permute", "select", "slice", "unsqueeze", "expand", "cat", "stack", "split",
             "slice_step", "select_neg", "squeeze", "flatten", "add_tensor", "mul_t1", "div_t1",
             "neg", "relu", "clone", "detach", "abs", "add1", "sum", "gelu", "contiguous", "lt", "copy_", "div_tensor", "roundtrip", "to_device",
             "sum_kw", "clamp_kw", "gelu_kw", "mean_kw"}
ContractOps == {"matmul", "bmm", "linear"}
RescaleOps == {"mul", "div", "to", "mul_t", "div_t", "rmul"}
RequantOps == {"softmax", "where"}
MoveOps == {"clone", "detach", "contiguous", "to", "roundtrip", "to_device"}

(* ---- C06 well-formedness of a projected result ------------------------------------------------ *)
RECURSIVE ProdS(_)
ProdS(s) == IF s = <<>> THEN 1 ELSE Head(s) * ProdS(Tail(s))
AllOnes(s) == \A i \in 1..Len(s) : s[i] = 1
StorageOf(q) == IF q \in {"qint8", "qint4", "qint2"} THEN "int8" ELSE IF q = "qfloat8_e5m2" THEN "float8_e5m2" ELSE "float8_e4m3fn"
ScaleLayoutOK(a) ==
  IF a.axis = "none" THEN ProdS(a.sshape) = 1
  ELSE IF a.kind = "QBits" THEN a.zshape = a.sshape   \* one zero-point per scale (the grouped layout itself is judged by C02/C03)
  ELSE /\ Len(a.sshape) = Len(a.shape) /\ Len(a.shape) >= 2
       /\ LET d == IF a.axis = "first" THEN 1 ELSE Len(a.shape) IN
            a.sshape[d] = a.shape[d] /\ ProdS(a.sshape) = a.shape[d]
WellFormedProj(a, e) ==
  IsQK(a.kind) =>
    /\ a.shape = e.twin_shape /\ a.shape = e.dq_shape                   \* reported shape = shape of the value
    /\ a.dtype = e.dq_dtype                                              \* reported dtype = dtype of the value
    /\ a.axis \in {"none", "first", "last"}
    /\ IF a.kind = "QBytes"
       THEN ProdS(a.pshape) = ProdS(a.shape) /\ a.pdtype = a.storage /\ a.storage = StorageOf(a.qt)
       ELSE Len(a.codes) = ProdS(a.shape)
    /\ Len(a.codes) = ProdS(a.shape)                                    \* one code per element
    /\ ScaleLayoutOK(a)

(* ---- C05 value equivalence --------------------------------------------------------------------- *)
ExactEq(e) == e.dq = e.twin
\* both sides round twice: |dq - ref| <= 6 max(u_in,u_out) |ref| + eta (2 + |V(c)| + |k|) (DESIGN 7.2): a scale that
\* lands in the subnormal range carries an absolute error eta/2 which is multiplied by the code value
MaxCodeOf(q) == IF q = "qfloat8_e5m2" THEN 57344 ELSE IF q \in {"qfloat8_e4m3fn", "qfloat8"} THEN 448 ELSE 128
RescaleOK(e) ==
  LET p == MinI2(PBits(e.fmt_in), PBits(e.fmt_out))
      eta == Pow2Ceil((IF EtaExp(e.fmt_in) > EtaExp(e.fmt_out) THEN EtaExp(e.fmt_in) ELSE EtaExp(e.fmt_out)) - e.E)
  IN /\ Len(e.dq) = Len(e.twin)
     /\ \A i \in 1..Len(e.dq) :
          /\ Fin(e.dq[i]) /\ Fin(e.twin[i])
          /\ BLe(SDist(e.dq[i], e.twin[i]), BAdd(URel(SAbs(e.twin[i]), 6, p), BMul(eta, BOfInt(MaxCodeOf(e.after.qt) + 8))))
\* re-quantizing operations: within one step of the output grid at the reference value
\*   int8: one step = scale ; float8: max(|ref| * 2^-mbits, smallest subnormal * scale)
\* "within one step of the output scale" presupposes an output grid made for the operation's codomain: softmax returns values in
\* [0, 1], so a grid whose largest code stands for much more than 1 is not a re-quantization of that result (a mutant choosing
\* the scale `max` instead of `1 / max` returned all zeros and was within one - enormous - step)
GridFitsUnitRange(e) ==
  (e.op = "softmax" /\ IsQK(e.after.kind) /\ e.E <= 0) =>
     BLe(BMul(SAbs(e.scale[1]), BOfInt(MaxCodeOf(e.after.qt))), BAdd(BShl(<<1>>, -e.E), BShl(<<1>>, IF -e.E >= 5 THEN -e.E - 5 ELSE 0)))
RequantOK(e) ==
  LET a == e.after IN
  IF ~IsQK(a.kind) THEN ExactEq(e)
  ELSE IF ~GridFitsUnitRange(e) THEN FALSE
  ELSE LET s == SAbs(e.scale[1])
           mb == IF a.qt = "qfloat8_e5m2" THEN 2 ELSE 3
           p == PBits(e.fmt_out)
       IN /\ Len(e.dq) = Len(e.twin)
          /\ \A i \in 1..Len(e.dq) :
               /\ Fin(e.dq[i]) /\ Fin(e.twin[i])
               /\ LET step == IF a.qt = "qint8" THEN s ELSE BMax(BShrCeil(SAbs(e.twin[i]), mb), s)
                  IN BLe(SDist(e.dq[i], e.twin[i]), BAdd(step, URel(BMax(SAbs(e.twin[i]), s), 8, p)))

\* contractions: within the error of one accumulation, |dq - ref| <= gamma_(K+4) * sum |a||b| + 4u |ref|  (absref = sum |a||b|, logged)
ContractOK(e) ==
  LET p == PBits(e.fmt_out) n == e.kdim + 4 IN
  /\ Len(e.dq) = Len(e.twin) /\ Len(e.absref) = Len(e.twin)
  /\ \A i \in 1..Len(e.dq) :
       \/ (~Fin(e.twin[i]) /\ ~Fin(e.dq[i]))             \* the float program itself produces inf / nan here (e.g. 0 / 0 earlier on)
       \/ /\ Fin(e.dq[i]) /\ Fin(e.twin[i]) /\ Fin(e.absref[i])
          /\ BLe(SDist(e.dq[i], e.twin[i]),
              BAdd(BAdd(IF 4 * n < 2^p THEN URel(e.absref[i].m, 2 * n, p) ELSE e.absref[i].m, URel(SAbs(e.twin[i]), 4, p)), <<1>>))

ValueOK(e) ==
  /\ e.dq_shape = e.twin_shape
  /\ (e.op \notin {"to", "lt"}) => e.dq_dtype = e.twin_dtype
  /\ CASE e.op \in ExactOps -> ExactEq(e)
       [] e.op \in RescaleOps -> IF IsQK(e.after.kind) THEN RescaleOK(e) ELSE ExactEq(e)
       [] e.op \in RequantOps -> RequantOK(e)
       [] e.op \in ContractOps -> ContractOK(e)
       [] OTHER -> FALSE

\* C06: moves and copies never alter codes; a dtype move changes only the dtype of the scale
MoveOK(e) ==
  (e.op \in MoveOps /\ IsQK(e.before.kind) /\ IsQK(e.after.kind)) =>
     /\ e.after.codes = e.before.codes /\ e.after.qt = e.before.qt /\ e.after.axis = e.before.axis
     /\ e.after.pdtype = e.before.pdtype
     /\ (e.before.kind = "QBits") => (e.after.kind = "QBits" /\ e.after.gs = e.before.gs /\ e.after.packed_rows = e.before.packed_rows
                                      /\ e.after.sshape = e.before.sshape /\ e.after.zshape = e.before.zshape /\ e.after.zdtype = e.before.zdtype)
     /\ e.op = "to" => (e.after.dtype = e.o.dtype /\ e.after.sdtype = e.o.dtype)
     /\ e.op # "to" => e.scale = e.scale_before

Refused(e) == e.before.kind = "QBits" /\ e.op = "to" /\ e.outcome = "ValueError"

StepOK(e) ==
  IF ~e.twin_ok THEN TRUE                        \* invalid float program: nothing is claimed from here on
  \* an operation that raises is C05's business; one that RETURNS a quantized tensor which then cannot be dequantized (its scale does
  \* not broadcast against its payload) has returned an ill-formed tensor: C06's business as well
  ELSE IF e.outcome # "value" THEN (IF Judge = "C05" THEN Refused(e) ELSE (Len(e.outcome) < 11 \/ SubSeq(e.outcome, 1, 11) # "dequantize:"))
  ELSE IF Judge = "C05" THEN ValueOK(e)
  ELSE WellFormedProj(e.after, e) /\ MoveOK(e)

(* ---- deviations of the pinned tree, by signature ------------------------------------------------- *)
DevSig(d, e) ==
  CASE d = "Dev_C05_StackFallback" -> e.op = "stack" /\ e.outcome = "TypeError"
    [] d = "Dev_C05_T1D" -> e.op = "t" /\ e.outcome = "ValueError" /\ Len(e.before.shape) < 2
    [] d = "Dev_C05_WhereOther" -> e.op = "where" /\ e.outcome = "NotImplementedError" /\ e.aux.kind = "QBytes"
    [] d = "Dev_C05_LtFloat8" -> e.op = "lt" /\ e.outcome = "NotImplementedError" /\ e.before.qt \in {"qfloat8_e4m3fn", "qfloat8_e5m2"} /\ e.aux.kind = "QBytes"
    [] d = "Dev_C05_CopyPlain" -> e.op = "copy_" /\ (e.aux.kind # "QBytes" \/ e.before.kind # "QBytes")
                                  /\ (e.outcome \in {"AttributeError", "AssertionError"}
                                      \/ (e.outcome = "value" /\ e.before.kind = "QBits"))    \* copy into a packed tensor is silently lost
    [] d = "Dev_C05_DivTensor" -> e.op = "div_tensor" /\ e.outcome = "RecursionError"
    [] d = "Dev_C05_NegMin" -> e.op = "neg" /\ e.outcome = "value" /\ e.before.qt = "qint8" /\ IsQK(e.after.kind)
                               /\ <<-1, 128>> \in {e.before.codes[i] : i \in 1..Len(e.before.codes)}
                               /\ WellFormedProj(e.after, e)
                               \* ... and ONLY the elements holding that code are wrong
                               /\ Len(e.dq) = Len(e.twin) /\ Len(e.before.codes) = Len(e.dq)
                               /\ \A i \in 1..Len(e.dq) : (e.before.codes[i] # <<-1, 128>>) => e.dq[i] = e.twin[i]
    [] d = "Dev_C06_SplitStaleSize" -> e.op = "split" /\ e.outcome = "value" /\ IsQK(e.after.kind) /\ e.after.shape = e.before.shape
    \* torch._int_mm on weights.t() of shape (1, N), N > 1 (C07 finding reached through a program): qint8 x qint8, one input feature
    [] d = "Dev_C07_IntMMK1" -> e.op = "linear" /\ e.outcome = "value" /\ e.kdim = 1 /\ Judge = "C05"
                                /\ e.before.kind = "QBytes" /\ e.before.qt = "qint8" /\ e.before.axis = "none"
                                /\ e.aux.kind = "QBytes" /\ e.aux.qt = "qint8" /\ e.aux.shape[1] > 1 /\ e.dq_shape = e.twin_shape
    \* float16, float8 first operand x quantized 8-bit weight through quanto::qbytes_mm: the product of the two scales is formed in
    \* float16 where it is subnormal (C07 finding reached through a program); the result has the right shape and dtype
    [] d = "Dev_C07_F16Float8Act" -> e.op = "linear" /\ e.outcome = "value" /\ Judge = "C05" /\ e.fmt_in = "float16"
                                     /\ e.before.kind = "QBytes" /\ e.before.qt \in {"qfloat8", "qfloat8_e4m3fn", "qfloat8_e5m2"}
                                     /\ e.aux.kind = "QBytes" /\ e.dq_shape = e.twin_shape /\ e.dq_dtype = e.twin_dtype
    [] OTHER -> FALSE

CONSTANTS Dev_C05_DivTensor, Dev_C05_NegMin, Dev_C07_IntMMK1, Dev_C07_F16Float8Act
DevOn == {d \in {"Dev_C07_F16Float8Act", "Dev_C07_IntMMK1", "Dev_C05_StackFallback", "Dev_C05_T1D", "Dev_C05_WhereOther", "Dev_C05_LtFloat8", "Dev_C05_CopyPlain",
                 "Dev_C05_DivTensor", "Dev_C05_NegMin", "Dev_C06_SplitStaleSize"} :
            CASE d = "Dev_C05_StackFallback" -> Dev_C05_StackFallback [] d = "Dev_C05_T1D" -> Dev_C05_T1D
              [] d = "Dev_C05_WhereOther" -> Dev_C05_WhereOther [] d = "Dev_C05_LtFloat8" -> Dev_C05_LtFloat8
              [] d = "Dev_C05_CopyPlain" -> Dev_C05_CopyPlain [] d = "Dev_C05_DivTensor" -> Dev_C05_DivTensor
              [] d = "Dev_C05_NegMin" -> Dev_C05_NegMin [] d = "Dev_C06_SplitStaleSize" -> Dev_C06_SplitStaleSize
              [] d = "Dev_C07_IntMMK1" -> Dev_C07_IntMMK1 [] d = "Dev_C07_F16Float8Act" -> Dev_C07_F16Float8Act}

(* ---- as-built prediction (drift) --------------------------------------------------------------------- *)
MetaOf(a, dt) == [kind |-> a.kind, qt |-> a.qt, axis |-> a.axis, shape |-> a.shape, pshape |-> a.shape, dtype |-> dt, why |-> ""]
DriftOf(e) ==
  IF ~e.twin_ok \/ e.before.kind \notin {"QBytes", "QBits", "Plain"} THEN 0
  ELSE LET pred == QSem(MetaOf(e.before, e.before.dtype), e.o) IN
       IF e.outcome # "value" THEN (IF pred.kind = "Raise" THEN 0 ELSE 1)
       ELSE IF pred.kind = "Raise" THEN 1
       ELSE IF pred.kind = e.after.kind /\ (IsQK(pred.kind) => (pred.axis = e.after.axis /\ pred.qt = e.after.qt)) THEN 0 ELSE 1

TInit == /\ tid \in 1..Len(Tr) /\ l = 1 /\ drift = 0 /\ dev = {} /\ tainted = FALSE
         /\ init = [kind |-> "trace"] /\ cur = [kind |-> "trace"] /\ prog = <<>> /\ pc = "trace"

TStart == /\ Is("Init")
          /\ (IsQK(Ev.proj.kind) => (Ev.proj.kind = Ev.init.kind /\ Ev.proj.qt = Ev.init.qt /\ Ev.proj.axis = Ev.init.axis /\ Ev.proj.shape = Ev.init.shape)) = TRUE
          /\ l' = l + 1 /\ UNCHANGED <<tid, drift, dev, tainted, vars>>

\* once a step was admitted only as a listed deviation the working tensor is known to be wrong:
\* later steps of that program are not independent evidence and are skipped
TOp == /\ Is("Op")
       /\ \/ (tainted /\ UNCHANGED <<dev, tainted>>)
          \/ (~tainted /\ StepOK(Ev) = TRUE /\ UNCHANGED <<dev, tainted>>)
          \/ (~tainted /\ \E d \in DevOn : ((~StepOK(Ev) /\ DevSig(d, Ev)) = TRUE /\ dev' = dev \cup {d} /\ tainted' = TRUE))
       /\ drift' = drift + (IF tainted THEN 0 ELSE DriftOf(Ev))
       /\ l' = l + 1 /\ UNCHANGED <<tid, vars>>

TNext == TStart \/ TOp
Record == TLCSet(tid, <<l, drift, dev>>)
SetSeq(S) == LET RECURSIVE H(_) H(T) == IF T = {} THEN <<>> ELSE LET x == CHOOSE x \in T : TRUE IN <<x>> \o H(T \ {x}) IN H(S)
Post == \A t \in 1..Len(Tr) :
          LET rr == TLCGet(t) IN
            PrintT(ToJson([tid |-> t, reached |-> rr[1], len |-> Len(Tr[t]), drift |-> rr[2], dev |-> SetSeq(rr[3])]))
=============================================================================
