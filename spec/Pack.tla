------------------------------- MODULE Pack -------------------------------
(* Sub-byte packing codec of quanto (property C04).

   A tensor of shape (rows, *trailing) is a row-major sequence `v` of values in
   0..2^bits-1 with `trail` = product of the trailing dimensions.

   As-built layer   : PackWeights (tensor/qbits/packed.py:24-69, the literal loop with
                      its `it` bound), UnpackPy (library/python/unpack.py:19-51),
                      UnpackCpp (library/ext/cpp/unpack.cpp:19-47, explicit masks),
                      Slice (packed.py:100-103), Route (library/ops.py:56-67),
                      Dispatch (packed.py:142-157).
   Abstract layer   : RoundTrip, Dense, KernelsAgree, OpsActOnUnpacked.                *)
EXTENDS Integers, Sequences, FiniteSets, TLC, Json

MinI(a, b) == IF a < b THEN a ELSE b
Vpi(bits) == 8 \div bits
RowDim(rows, bits) == (rows + Vpi(bits) - 1) \div Vpi(bits)
CeilDiv(a, b) == (a + b - 1) \div b

At(v, trail, r, t) == v[r * trail + t + 1]

RECURSIVE SumTo(_, _)
SumTo(f, n) == IF n < 0 THEN 0 ELSE f[n] + SumTo(f, n - 1)

(* ---- as built: pack_weights ------------------------------------------------- *)
It(rows, bits) == MinI(Vpi(bits), (rows \div RowDim(rows, bits)) + 1)

\* `packed[:end-start] |= unpacked[start:end] << bits*i` ; a uint8 shift wraps mod 256;
\* fields are disjoint when the values fit in `bits`, so OR is a sum.
PackWeights(v, rows, trail, bits) ==
  LET rd == RowDim(rows, bits)
      it == It(rows, bits)
      Contrib(i, pr, t) ==
        LET start == i * rd
            end   == MinI(start + rd, rows)
        IN IF pr < end - start THEN (At(v, trail, start + pr, t) * 2^(bits * i)) % 256 ELSE 0
  IN [k \in 1..(rd * trail) |->
        LET pr == (k - 1) \div trail
            t  == (k - 1) % trail
        IN SumTo([i \in 0..(it - 1) |-> Contrib(i, pr, t)], it - 1)]

(* ---- as built: python kernel: cat_i ((p & (2^(bits(i+1))-1)) >> bits*i) ------- *)
UnpackPy(p, prow, trail, bits) ==
  [k \in 1..(Vpi(bits) * prow * trail) |->
      LET r  == (k - 1) \div trail
          t  == (k - 1) % trail
          i  == r \div prow
          pr == r % prow
      IN (At(p, trail, pr, t) % 2^(bits * (i + 1))) \div 2^(bits * i)]

(* ---- as built: C++ kernel, explicit masks ------------------------------------ *)
RECURSIVE BitAnd(_, _)
BitAnd(a, b) == IF a = 0 \/ b = 0 THEN 0
                ELSE (a % 2) * (b % 2) + 2 * BitAnd(a \div 2, b \div 2)

CppMask(bits, i) == IF bits = 4 THEN <<15, 240>>[i + 1] ELSE <<3, 12, 48, 192>>[i + 1]

UnpackCpp(p, prow, trail, bits) ==
  [k \in 1..(Vpi(bits) * prow * trail) |->
      LET r  == (k - 1) \div trail
          t  == (k - 1) % trail
          i  == r \div prow
          pr == r % prow
      IN BitAnd(At(p, trail, pr, t), CppMask(bits, i)) \div 2^(bits * i)]

Slice(u, rows, trail) == SubSeq(u, 1, rows * trail)

(* ---- abstract meaning of the codec ---------------------------------------------
   The reference unpacking: value (i*prow + pr, t) is bit-field i of payload byte (pr, t). *)
UnpackRef(p, prow, trail, bits) == UnpackPy(p, prow, trail, bits)

DenseRows(rows, bits) == CeilDiv(rows * bits, 8)

(* ---- top-level route: quanto::unpack ------------------------------------------- *)
Route(extEnabled, extOk) ==
  IF extEnabled THEN (IF extOk THEN "ext" ELSE "py_after_warning") ELSE "py"

(* ---- dispatch of ops on a PackedTensor ------------------------------------------ *)
Dispatch(op) ==
  CASE op = "detach"   -> "packed"
    [] op = "clone"    -> "packed"
    [] op = "to_uint8" -> "packed"
    [] op = "to_other" -> "ValueError"
    [] OTHER           -> "on_unpacked"

(* ---- model-checking state machine ---------------------------------------------- *)
CONSTANTS MaxRows, Trails, Codings
VARIABLES bits, rows, trail, coding, v, payload, upy, ucpp, pc

vars == <<bits, rows, trail, coding, v, payload, upy, ucpp, pc>>

\* position-coded contents: any index mix-up changes the result
Content(b, r, tr, c) ==
  [k \in 1..(r * tr) |->
      LET row == (k - 1) \div tr
          t   == (k - 1) % tr
      IN (c[1] * row + c[2] * t + c[3] + (row \div Vpi(b)) * c[4]) % 2^b]

\* rows = vpi, trail = 256: payload column j is byte j (all 256 bytes)
AllBytes(b) == [k \in 1..(Vpi(b) * 256) |->
                  LET row == (k - 1) \div 256
                      j   == (k - 1) % 256
                  IN (j \div 2^(b * row)) % 2^b]

Init ==
  /\ bits \in {2, 4}
  /\ \/ /\ rows \in 1..MaxRows /\ trail \in Trails /\ coding \in Codings
        /\ v = Content(bits, rows, trail, coding)
     \/ /\ rows = Vpi(bits) /\ trail = 256 /\ coding = <<0, 0, 0, 0>>
        /\ v = AllBytes(bits)
  /\ payload = <<>> /\ upy = <<>> /\ ucpp = <<>> /\ pc = "fresh"

DoPack == /\ pc = "fresh"
          /\ payload' = PackWeights(v, rows, trail, bits)
          /\ pc' = "packed"
          /\ UNCHANGED <<bits, rows, trail, coding, v, upy, ucpp>>

DoUnpackPy == /\ pc = "packed"
              /\ upy' = UnpackPy(payload, RowDim(rows, bits), trail, bits)
              /\ pc' = "py"
              /\ UNCHANGED <<bits, rows, trail, coding, v, payload, ucpp>>

DoUnpackCpp == /\ pc = "py"
               /\ ucpp' = UnpackCpp(payload, RowDim(rows, bits), trail, bits)
               /\ pc' = "done"
               /\ UNCHANGED <<bits, rows, trail, coding, v, payload, upy>>

Next == DoPack \/ DoUnpackPy \/ DoUnpackCpp

(* ---- properties ------------------------------------------------------------------ *)
Dense == pc # "fresh" => Len(payload) = DenseRows(rows, bits) * trail
BytesOK == pc # "fresh" => \A k \in 1..Len(payload) : payload[k] \in 0..255
RoundTrip == pc \in {"py", "done"} => Slice(upy, rows, trail) = v
KernelsAgree == pc = "done" => upy = ucpp
AllBytesCovered == (pc = "packed" /\ trail = 256) => \A j \in 0..255 : payload[j + 1] = j

MCCodings == {<<1, 0, 0, 0>>, <<1, 1, 0, 1>>, <<5, 3, 1, 0>>}

Case == [bits |-> bits, rows |-> rows, trail |-> trail, v |-> v, payload |-> payload]
EmitCase == pc = "packed" => PrintT(ToJson(Case))
=============================================================================
