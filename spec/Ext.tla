-------------------------------- MODULE Ext --------------------------------
(* The process-global extension switch of library/ops.py:24-35 (growth beyond the listed
   properties; C13's statement does not constrain it, so this module gives evidence only).

   As built: disable_extensions() sets the switch to False on entry and to True on exit -
   it does not restore the previous value.  Abstract: leaving a context restores the value
   the switch had when the context was entered (NestedRestores).  With nesting depth >= 2
   the as-built exit re-enables extensions while an outer context is still open.          *)
EXTENDS Integers, Sequences, TLC

CONSTANTS MaxNest, RestoreOnExit     \* RestoreOnExit = FALSE is the pinned tree
VARIABLES enabled, stack
vars == <<enabled, stack>>

Init == enabled = TRUE /\ stack = <<>>
Enter == /\ Len(stack) < MaxNest
         /\ stack' = Append(stack, enabled) /\ enabled' = FALSE
Exit  == /\ stack # <<>>
         /\ enabled' = IF RestoreOnExit THEN stack[Len(stack)] ELSE TRUE
         /\ stack' = SubSeq(stack, 1, Len(stack) - 1)
Next == Enter \/ Exit

\* inside any open context extensions are disabled; outside they are enabled
NestedRestores == (stack # <<>> => ~enabled) /\ (stack = <<>> => enabled)
=============================================================================
