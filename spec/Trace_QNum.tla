---------------------------- MODULE Trace_QNum ----------------------------
(* Wide-domain trace validation of the numeric properties C01, C02, C03, C16.

   Events are recorded from the real quantizers / optimizers on arbitrary values.  Every
   real number is a BigInt (Exact.tla) at a common binary exponent E chosen per event, so
   all predicates below are evaluated in exact integer arithmetic; floating-point
   rounding is admitted only through the explicit tolerances derived in DESIGN.md 7.1
   (u = 2^-p unit roundoff of the working format, eta its smallest subnormal).

     SymW   one tensor through quantize_activation / SymmetricQuantizer / dequantize / requantize
     AffW   one tensor through quantize_weight(qint2|qint4) / dequantize / requantize
     RangeW one call of a range optimizer (AbsmaxOptimizer, MaxOptimizer, absmax_scale)
     Pair   two earlier events of the same trace related by a metamorphic relation     *)
EXTENDS Exact, Grids, TLC, TLCExt, Json, IOUtils

Tr == JsonDeserialize(IOEnv.TRACE_FILE)
VARIABLES tid, l, dev
tvars == <<tid, l, dev>>

CONSTANTS Dev_C16_AbsmaxOverflow,  \* known finding switches (TRUE = listed as known)
          Dev_C16_F8ZeroScale,
          Dev_C02_NoZeroHull

Ev == Tr[tid][l]
Is(a) == l <= Len(Tr[tid]) /\ Ev.act = a
Fin(x) == x.s # 2          \* non-finite values are recorded as [s |-> 2, m |-> <<>>]

(* ---- grid of a qtype as mantissa * 2^shift fine units ------------------------------------ *)
CodeMant(qt, c) ==           \* c = <<sgn, j>> ; qint8: j = |code|
  IF qt = "qint8" THEN c[2]
  ELSE LET mb == MBits(qt) e == c[2] \div 2^mb m == c[2] % 2^mb IN IF e = 0 THEN 2 * m ELSE 2^mb + m
CodeShift(qt, c) ==
  IF qt = "qint8" THEN 2
  ELSE LET mb == MBits(qt) e == c[2] \div 2^mb IN IF e = 0 THEN 0 ELSE e
\* SF = scale * 2^(fine exponent) as BigNat (positive); value of code c = sgn * SF * mant * 2^shift
PVal(sf, qt, c) == SMk(c[1], BShl(BMulS(sf, CodeMant(qt, c)), CodeShift(qt, c)))

ValidCode(qt, c) ==
  /\ IF qt = "qint8" THEN (c[1] = -1 /\ c[2] \in 1..128) \/ (c[1] = 1 /\ c[2] \in 1..127) \/ (c[1] = 0 /\ c[2] = 0)
     ELSE c[1] \in {-1, 1} /\ c[2] \in 0..JMax(qt)

\* neighbours in value order
Nbrs(qt, c) ==
  IF qt = "qint8"
  THEN LET v == c[1] * c[2] IN {<<Sgn(w), Abs(w)>> : w \in {v - 1, v + 1} \cap (-128..127)}
  ELSE {<<c[1], j>> : j \in {c[2] - 1, c[2] + 1} \cap (0..JMax(qt))} \cup (IF c[2] = 0 THEN {<<-c[1], 1>>} ELSE {})
TopCode(qt) == IF qt = "qint8" THEN <<1, 127>> ELSE <<1, JMax(qt)>>

SameVal(qt, c, d) == (CodeMant(qt, c) = 0 /\ CodeMant(qt, d) = 0) \/ (c = d)

(* ---- tolerances ----------------------------------------------------------------------------- *)
\* k * u * a  rounded up   (u = 2^-p)
URel(a, k, p) == BShrCeil(BMulS(a, k), p)
\* 2^n as BigNat for possibly negative n (rounded up to 1)
Pow2Ceil(n) == IF n <= 0 THEN <<1>> ELSE BShl(<<1>>, n)

(* ---- C01: symmetric ---------------------------------------------------------------------------
   fields: qt, fmt, eta_shift (= exponent of eta - E), nmin_shift (= exponent of the smallest
   normal - E), maxfin (largest finite number of fmt, BigNat or "big" when > 2^400), sf[] scales,
   sidx[] (1-based index into sf per element), x[], code[], dq[], code2[]                       *)
SymElemOK(e, i) ==
  LET qt  == e.qt
      p   == PBits(e.fmt)
      sf  == e.sf[e.sidx[i]]
      x   == e.x[i]
      c   == e.code[i]
      pc  == PVal(sf, qt, c)
      eta == Pow2Ceil(e.eta_shift)
      ptop == SAbs(PVal(sf, qt, TopCode(qt)))
      xhat == BMin(SAbs(x), BMulS(ptop, 2))
      s1   == BShl(sf, IF qt = "qint8" THEN 2 ELSE IF qt = "qfloat8_e4m3fn" THEN 10 ELSE 17)   \* the scale itself
      tol1 == BAdd(URel(BMax(xhat, s1), 3, p), BAdd(eta, URel(s1, 1, -EtaExp(e.fmt))))
      tol2 == BAdd(URel(SAbs(pc), 1, p), eta)
      dc   == SDist(x, pc)
  IN /\ ValidCode(qt, c)
     /\ \A d \in Nbrs(qt, c) : BLe(dc, BAdd(SDist(x, PVal(sf, qt, d)), tol1))        \* nearest grid point
     /\ IF Fin(e.dq[i])
        THEN /\ BLe(SDist(e.dq[i], pc), tol2)                                           \* dequantize = scale * value
             /\ (e.fmt \in {"float32", "float16"} /\ BLe(Pow2Ceil(e.nmin_shift), SAbs(pc)))
                   => (ValidCode(qt, e.code2[i]) /\ SameVal(qt, c, e.code2[i]))          \* idempotent
             /\ SAbs(pc) = <<>> => ValidCode(qt, e.code2[i]) /\ CodeMant(qt, e.code2[i]) = 0
        ELSE e.nonfinite_judged_by_c16 \/ (~e.maxfin_big /\ BLe(e.maxfin, BAdd(SAbs(pc), URel(SAbs(pc), 1, p))))   \* grid point not representable: excluded (counted by the harness), judged by C16

TSymW ==
  /\ Is("SymW")
  /\ (\A i \in 1..Len(Ev.x) : SymElemOK(Ev, i)) = TRUE
  /\ (Ev.out_shape = Ev.shape /\ Ev.out_dtype = Ev.fmt /\ Ev.out_qtype = Ev.qt) = TRUE
  /\ l' = l + 1 /\ UNCHANGED <<tid, dev>>

(* ---- C02: affine -------------------------------------------------------------------------------
   fields: bits, fmt, eta_shift, groups: sequence of [x |-> <<BigInt>>, dq |-> <<BigInt|"nonfinite">>],
   payload_equal (requantized payload byte-identical), out_shape, shape                          *)
RECURSIVE SMinSeq(_)
SMinSeq(s) == IF Len(s) = 1 THEN s[1] ELSE LET r == SMinSeq(Tail(s)) IN IF SLe(s[1], r) THEN s[1] ELSE r
RECURSIVE SMaxSeq(_)
SMaxSeq(s) == IF Len(s) = 1 THEN s[1] ELSE LET r == SMaxSeq(Tail(s)) IN IF SLe(r, s[1]) THEN s[1] ELSE r
Hull(xs) == LET lo == SMinSeq(xs) hi == SMaxSeq(xs)
                lo0 == IF SLe(lo, SZero) THEN lo ELSE SZero
                hi0 == IF SLe(SZero, hi) THEN hi ELSE SZero
            IN SAbs(SSub(hi0, lo0))
StraddlesZero(xs) == SLe(SMinSeq(xs), SZero) /\ SLe(SZero, SMaxSeq(xs))

\* 2Q|x - dq| <= hull * (1 + 11 Q u) + 2Q(Q+2) eta     (a scale in the subnormal range carries an
\* absolute error eta/2 that is multiplied by code - zeropoint <= Q: found by the tolerance audit)
AffGroupOK(e, g) ==
  LET q   == 2^e.bits - 1
      p   == PBits(e.fmt)
      h   == Hull(g.x)
      eta == Pow2Ceil(e.eta_shift)
      bound == BAdd(BAdd(h, URel(h, 11 * q, p)), BMulS(eta, 2 * q * (q + 2)))
  IN \A i \in 1..Len(g.x) : IF Fin(g.dq[i]) THEN BLe(BMulS(SDist(g.x[i], g.dq[i]), 2 * q), bound)
                              ELSE e.nonfinite_judged_by_c16

\* idempotence is claimed while every non-zero group has a scale in the normal range of the format
\* (a subnormal scale carries an absolute error that can move a code: DESIGN 7.1)
IdemClaimed(e) ==
  LET q == 2^e.bits - 1 IN
  \A k \in 1..Len(e.groups) : LET h == Hull(e.groups[k].x) IN h = <<>> \/ BLe(BMulS(Pow2Ceil(e.nmin_shift + 2), q), h)
AffOK(e) ==
  /\ \A k \in 1..Len(e.groups) : AffGroupOK(e, e.groups[k])
  /\ e.out_shape = e.shape /\ e.out_dtype = e.fmt
  /\ (e.fmt \in {"float32", "float16"} /\ IdemClaimed(e)) => e.payload_equal

\* deviation (pinned tree): groups whose value range does not contain zero
AffDevSig(e) ==
  /\ \A k \in 1..Len(e.groups) : AffGroupOK(e, e.groups[k]) \/ ~StraddlesZero(e.groups[k].x)
  /\ e.out_shape = e.shape /\ e.out_dtype = e.fmt

TAffW ==
  /\ Is("AffW")
  /\ \/ (AffOK(Ev) = TRUE /\ dev' = dev)
     \/ (Dev_C02_NoZeroHull /\ (~AffOK(Ev) /\ AffDevSig(Ev)) = TRUE /\ dev' = dev \cup {"Dev_C02_NoZeroHull"})
  /\ l' = l + 1 /\ UNCHANGED tid

(* ---- C03: range optimizers ------------------------------------------------------------------------
   fields: family ("sym" | "aff"), fmt, eta_shift, qmax_store (storage maximum as mantissa/shift
   pair in fine units, via code), bits, rows: sequence of [x |-> <<BigInt>>, scale |-> BigInt | "nonfinite"],
   scale_dtype, scale_count                                                                       *)
RECURSIVE BMaxAbs(_)
BMaxAbs(xs) == IF xs = <<>> THEN <<>> ELSE BMax(SAbs(xs[1]), BMaxAbs(Tail(xs)))

RangeRowOK(e, rw) ==
  LET p   == PBits(e.fmt)
      eta == Pow2Ceil(e.eta_shift)
      am  == BMaxAbs(rw.x)
  IN IF ~Fin(rw.scale) THEN FALSE
     ELSE IF e.family = "sym"
     THEN LET s == SAbs(rw.scale) IN
          /\ rw.scale.s >= 0
          \* non-saturating: absmax <= scale * storage_max * (1 + 4u) + eta
          /\ LET cap == BShl(BMulS(s, e.smax_m), e.smax_sh) IN BLe(am, BAdd(BAdd(cap, URel(cap, 4, p)), BShl(BMulS(eta, e.smax_m + 1), e.smax_sh)))
          \* full range: scale * 127 <= absmax * (1 + 4u) + eta      (all-zero rows exempt)
          /\ am # <<>> => BLe(BMulS(s, 127), BAdd(BAdd(am, URel(am, 4, p)), BMulS(eta, 128)))
     ELSE LET s == SAbs(rw.scale) q == 2^e.bits - 1 h == Hull(rw.x)
              lo == SMinSeq(rw.x) hi == SMaxSeq(rw.x)
              sq == BMulS(s, q)
          IN
          /\ rw.scale.s >= 0
          \* full range / step bound: scale * Q <= (hull of the values and zero) * (1 + 4u)
          /\ BLe(sq, BAdd(BAdd(h, URel(h, 4, p)), BMulS(eta, q + 1)))
          \* non-saturating: every element's code before clamping lies in -1..Q+1 (up to rounding):
          \*   -scale <= scale*zp + lo   and   scale*zp + hi <= scale*(Q+1)
          /\ LET slack == BAdd(URel(BMax(BMax(SAbs(lo), SAbs(hi)), sq), 4 + q, p), BMulS(eta, q + 1))
                 zs == SMulI(rw.scale, rw.zp)
             IN /\ SLe(SNeg(SMk(1, BAdd(s, slack))), SAdd(zs, lo))
                /\ SLe(SAdd(zs, hi), SMk(1, BAdd(BMulS(s, q + 1), slack)))

RangeOK(e) ==
  /\ \A k \in 1..Len(e.rows) : RangeRowOK(e, e.rows[k])
  /\ e.scale_dtype = e.fmt /\ e.scale_count = Len(e.rows)

\* deviation: a non-finite scale because absmax / qmax... (not expected) ; zero-excluding groups (pinned tree)
RangeDevSig(e) ==
  /\ e.family = "aff"
  /\ \A k \in 1..Len(e.rows) : RangeRowOK(e, e.rows[k]) \/ ~StraddlesZero(e.rows[k].x)
  /\ e.scale_dtype = e.fmt /\ e.scale_count = Len(e.rows)

TRangeW ==
  /\ Is("RangeW")
  /\ \/ (RangeOK(Ev) = TRUE /\ dev' = dev)
     \/ (Dev_C02_NoZeroHull /\ (~RangeOK(Ev) /\ RangeDevSig(Ev)) = TRUE /\ dev' = dev \cup {"Dev_C02_NoZeroHull"})
  /\ l' = l + 1 /\ UNCHANGED tid

(* ---- C03: locality / permutation equivariance ----------------------------------------------------
   fields: a, b (indices of two earlier events of this trace), keep: sequence of <<row in a, row in b>>;
   the observations of the kept rows (codes as opaque sequences, scale, zero-point as BigInt)
   must be identical.                                                                            *)
PairOK(e) ==
  \A k \in 1..Len(e.keep) :
     LET ra == e.obs_a[k] rb == e.obs_b[k] IN ra = rb

TPair ==
  /\ Is("Pair")
  /\ PairOK(Ev) = TRUE
  /\ l' = l + 1 /\ UNCHANGED <<tid, dev>>

(* ---- C16: finiteness --------------------------------------------------------------------------------
   fields: kind, qt, fmt, finite (all dequantized values finite), zero_exact (zero inputs give zeros),
   class (input class), plus the C01/C02 events of the same tensor earlier in the trace        *)
FinOK(e) == e.finite /\ e.zero_exact
\* deviation signatures: the input class in which the non-finite values arose, as classified
\* by the driver from *where* they are (rows that are all zero / rows that touch the format's
\* largest magnitude); anything else is a new violation
FinDevSig(d, e) ==
  \/ d = "Dev_C16_AbsmaxOverflow" /\ e.class = "near-max"
  \/ d = "Dev_C16_F8ZeroScale" /\ e.class = "zero-batch-float8-activations" /\ e.kind = "calibration-then-inference"
       /\ e.qt \in {"qfloat8_e4m3fn", "qfloat8_e5m2", "qfloat8"}
DevOn == (IF Dev_C16_AbsmaxOverflow THEN {"Dev_C16_AbsmaxOverflow"} ELSE {}) \cup
         (IF Dev_C16_F8ZeroScale THEN {"Dev_C16_F8ZeroScale"} ELSE {})
TFin ==
  /\ Is("Finite")
  /\ \/ (FinOK(Ev) = TRUE /\ dev' = dev)
     \/ (\E d \in DevOn : (~FinOK(Ev) /\ FinDevSig(d, Ev)) = TRUE /\ dev' = dev \cup {d})
  /\ l' = l + 1 /\ UNCHANGED tid

TInit == tid \in 1..Len(Tr) /\ l = 1 /\ dev = {}
TNext == TSymW \/ TAffW \/ TRangeW \/ TPair \/ TFin

Record == TLCSet(tid, <<l, dev>>)
SetSeq(S) == LET RECURSIVE H(_) H(T) == IF T = {} THEN <<>> ELSE LET x == CHOOSE x \in T : TRUE IN <<x>> \o H(T \ {x}) IN H(S)
Post == \A t \in 1..Len(Tr) :
          LET rr == TLCGet(t) IN
            PrintT(ToJson([tid |-> t, reached |-> rr[1], len |-> Len(Tr[t]), dev |-> SetSeq(rr[2])]))
=============================================================================
