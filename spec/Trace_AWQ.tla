----------------------------- MODULE Trace_AWQ -----------------------------
(* Validates the position maps recovered from the real AWQ packers (by packing index-coded
   matrices) and the conversions between the standard and the AWQ-optimised representation. *)
EXTENDS AWQ, Exact, TLCExt, IOUtils

Tr == JsonDeserialize(IOEnv.TRACE_FILE)
VARIABLES tid, l, drift, dev, last      \* last: the most recent quanto position map of this trace

Ev == Tr[tid][l]
Is(a) == l <= Len(Tr[tid]) /\ Ev.act = a
URel(a, k, p) == BShrCeil(BMulS(a, k), p)

TInit == /\ tid \in 1..Len(Tr) /\ l = 1 /\ drift = 0 /\ dev = {} /\ last = <<>>
         /\ layout = "" /\ N = 0 /\ K = 0 /\ pc = ""

RowsOf(e) == IF e.layout = "v2" THEN e.N \div 4 ELSE e.N
ColsOf(e) == IF e.layout = "v2" THEN e.K ELSE e.K \div 8
NibsOf(e) == IF e.layout = "v2" THEN 4 ELSE 8
PermOK(e) ==
  /\ e.outcome = "ok" /\ Len(e.dest) = e.N * e.K
  /\ \A p \in 1..Len(e.dest) : e.dest[p][1] \in 0..(RowsOf(e) - 1) /\ e.dest[p][2] \in 0..(ColsOf(e) - 1) /\ e.dest[p][3] \in 0..(NibsOf(e) - 1)
  /\ Cardinality({e.dest[p] : p \in 1..Len(e.dest)}) = e.N * e.K              \* Bijective
  /\ e.roundtrip                                                               \* unpack(pack(x)) = x
  /\ e.impl = "reference" => e.dest = last                                      \* V2EqualsReference (bit-identical layout)
AsBuiltDest(e) == [p \in 1..(e.N * e.K) |->
                     IF e.layout = "v2" THEN PosV2((p - 1) \div e.K, (p - 1) % e.K, e.N, e.K)
                     ELSE PosV1(e.layout = "v1r", (p - 1) \div e.K, (p - 1) % e.K)]
TPerm ==
  /\ Is("Perm") /\ PermOK(Ev) = TRUE
  /\ last' = IF Ev.impl = "quanto" THEN Ev.dest ELSE last
  /\ drift' = drift + (IF Ev.dest = AsBuiltDest(Ev) THEN 0 ELSE 1)
  /\ l' = l + 1 /\ UNCHANGED <<tid, dev, vars>>

\* same weights in both representations: values agree up to one float16 rounding; converting back restores everything
ConvertOK(e) ==
  /\ e.outcome = "ok"
  /\ Len(e.deq_std) = Len(e.deq_opt)
  /\ \A i \in 1..Len(e.deq_std) :
       /\ e.deq_std[i].s # 2 /\ e.deq_opt[i].s # 2
       /\ BLe(SDist(e.deq_std[i], e.deq_opt[i]), BAdd(URel(BMax(SAbs(e.deq_std[i]), e.absterm[i].m), 2, 11), <<1>>))
  /\ e.back.outcome = "ok" /\ e.back.codes_same /\ e.back.scale_same /\ e.back.zp_same /\ e.back.meta_same /\ e.back.deq_same
  /\ e.saved_same
ConvertDevSig(e) == e.outcome = "ok" /\ (\A i \in 1..Len(e.deq_std) : e.deq_std[i].s # 2 /\ e.deq_opt[i].s # 2
                       /\ BLe(SDist(e.deq_std[i], e.deq_opt[i]), BAdd(URel(BMax(SAbs(e.deq_std[i]), e.absterm[i].m), 2, 11), <<1>>)))
TConvert ==
  /\ Is("Convert")
  /\ \/ (ConvertOK(Ev) = TRUE /\ dev' = dev)
     \/ (Dev_C15_QBitsTensor /\ (~ConvertOK(Ev) /\ ConvertDevSig(Ev)) = TRUE /\ dev' = dev \cup {"Dev_C15_QBitsTensor"})
  /\ l' = l + 1 /\ UNCHANGED <<tid, drift, last, vars>>

TNext == TPerm \/ TConvert
Record == TLCSet(tid, <<l, drift, dev>>)
SetSeq(S) == LET RECURSIVE H(_) H(T) == IF T = {} THEN <<>> ELSE LET x == CHOOSE x \in T : TRUE IN <<x>> \o H(T \ {x}) IN H(S)
Post == \A t \in 1..Len(Tr) :
          LET rr == TLCGet(t) IN
            PrintT(ToJson([tid |-> t, reached |-> rr[1], len |-> Len(Tr[t]), drift |-> rr[2], dev |-> SetSeq(rr[3])]))
=============================================================================
