-------------------------------- MODULE QSym --------------------------------
(* Symmetric 8-bit quantization (property C01; degenerate inputs for C16).

   As-built layer: the statements of SymmetricQuantizer.forward
   (tensor/quantizers/symmetric.py:53-57) and QBytesDequantizer.forward
   (tensor/qbytes.py:27-35), one action each, on the *lattice domain*: the scale is a
   power of two 2^k and the element is n fine units of the grid times 2^k, so that no
   floating-point operation of the code rounds and the model's integers are the code's
   floats.  Abstract layer: NearestGridPoint, SaturatesNotWraps, RequantIdempotent.

   Element mode enumerates every lattice point; tensor mode fixes the meaning of the
   quantization axis (which scale entry an element is divided by).                    *)
EXTENDS Grids, TLC, Json

CONSTANTS KSet,          \* scale exponents k for which cases are emitted
          Shapes         \* tensor-mode shapes (sequences of dims, rank 2..3)

VARIABLES mode, qt, w, n, pc, q, r, cl, code, dq, code2,
          shape, axis, ks, ns, tcodes

vars == <<mode, qt, w, n, pc, q, r, cl, code, dq, code2, shape, axis, ks, ns, tcodes>>

Lattice(t, win) == IF t = "qint8" THEN Int8Lattice ELSE F8Lattice(t, win)

(* ---- element mode ------------------------------------------------------------------ *)
InitElem ==
  /\ mode = "elem"
  /\ qt \in QTypes8 /\ w \in Windows(qt) /\ n \in Lattice(qt, w)
  /\ pc = "x" /\ q = 0 /\ r = 0 /\ cl = 0 /\ code = <<>> /\ dq = 0 /\ code2 = <<>>
  /\ shape = <<>> /\ axis = 0 /\ ks = <<>> /\ ns = <<>> /\ tcodes = <<>>

tens == <<shape, axis, ks, ns, tcodes>>

\* data = base / scale           (exact: scale is a power of two)
Divide == /\ mode = "elem" /\ pc = "x" /\ q' = n /\ pc' = "divided"
          /\ UNCHANGED <<mode, qt, w, n, r, cl, code, dq, code2, tens>>

\* if not qtype.is_floating_point: data = torch.round(data)      (half to even)
Round == /\ pc = "divided"
         /\ r' = (IF qt = "qint8" THEN 4 * RNE(q, 4) ELSE q)     \* kept in fine units
         /\ pc' = "rounded"
         /\ UNCHANGED <<mode, qt, w, n, q, cl, code, dq, code2, tens>>

\* data = torch.clamp(data, min=info.min, max=info.max)
TopFine(t, win) == IF t = "qint8" THEN 4 * 127 ELSE F8Top(t, win)
BotFine(t, win) == IF t = "qint8" THEN -4 * 128 ELSE -F8Top(t, win)
ClampStep == /\ pc = "rounded"
             /\ cl' = Clamp(r, BotFine(qt, w), TopFine(qt, w))
             /\ pc' = "clamped"
             /\ UNCHANGED <<mode, qt, w, n, q, r, code, dq, code2, tens>>

\* .to(qtype.dtype)     int8: exact; float8: round to nearest, ties to even
CastOf(t, win, c) == IF t = "qint8" THEN <<Sgn(c), Abs(c) \div 4>>
                     ELSE <<(IF c < 0 THEN -1 ELSE 1), F8RoundMag(t, win, Abs(c))>>
Cast == /\ pc = "clamped"
        /\ code' = CastOf(qt, w, cl)
        /\ pc' = "cast"
        /\ UNCHANGED <<mode, qt, w, n, q, r, cl, dq, code2, tens>>

\* dequantize: scale * data (float8 up-cast first)
ValFine(t, win, c) == IF t = "qint8" THEN 4 * c[1] * c[2] ELSE F8Val(t, win, c)
Dequant == /\ pc = "cast"
           /\ dq' = ValFine(qt, w, code)
           /\ pc' = "dequantized"
           /\ UNCHANGED <<mode, qt, w, n, q, r, cl, code, code2, tens>>

AsBuiltCode(t, win, x) ==
  IF t = "qint8" THEN LET c == Int8AsBuilt(x) IN <<Sgn(c), Abs(c)>> ELSE F8AsBuilt(t, win, x)

\* quantize the dequantized value again with the same scale
Requant == /\ pc = "dequantized"
           /\ code2' = AsBuiltCode(qt, w, dq)
           /\ pc' = "done"
           /\ UNCHANGED <<mode, qt, w, n, q, r, cl, code, dq, tens>>

(* ---- abstract properties ------------------------------------------------------------ *)
Nearest(t, win, x) ==
  IF t = "qint8" THEN {<<Sgn(c), Abs(c)>> : c \in Int8Nearest(x)} ELSE F8Nearest(t, win, x)

SameValue(t, win, c, d) == ValFine(t, win, c) = ValFine(t, win, d)

NearestGridPoint ==
  (mode = "elem" /\ pc = "cast") =>
     \E c \in Nearest(qt, w, n) : SameValue(qt, w, c, code)

SaturatesNotWraps ==
  (mode = "elem" /\ pc = "cast") =>
     /\ n >= TopFine(qt, w) => ValFine(qt, w, code) = TopFine(qt, w)
     /\ n <= BotFine(qt, w) => ValFine(qt, w, code) = BotFine(qt, w)

RequantIdempotent ==
  (mode = "elem" /\ pc = "done") => SameValue(qt, w, code, code2)

\* the pipeline and the closed form agree (the closed form is what tensor mode uses)
PipelineIsClosedForm ==
  (mode = "elem" /\ pc = "cast") => SameValue(qt, w, code, AsBuiltCode(qt, w, n))

(* ---- tensor mode: meaning of the axis ------------------------------------------------ *)
RECURSIVE Prod(_)
Prod(s) == IF s = <<>> THEN 1 ELSE Head(s) * Prod(Tail(s))

\* row-major multi-index (0-based) of flat position p (0-based)
RECURSIVE Unravel(_, _)
Unravel(p, s) == IF s = <<>> THEN <<>>
                 ELSE LET rest == Prod(Tail(s)) IN <<p \div rest>> \o Unravel(p % rest, Tail(s))

\* which scale entry element `idx` uses: axis 0 -> first index, axis -1 -> last index
ScaleIndex(ax, idx) == IF ax = 0 THEN idx[1] ELSE idx[Len(idx)]
AxisLen(ax, s) == IF ax = 0 THEN s[1] ELSE s[Len(s)]

\* directed element values for tensor mode (quarter steps / fine units), by position
TensorPoints(t, win) ==
  IF t = "qint8" THEN <<-514, -510, -6, -2, -1, 0, 1, 2, 3, 5, 6, 10, 250, 506, 509, 510>>
  ELSE LET ja == IF t = "qfloat8_e5m2" THEN 60 ELSE 37
           g == F8Fine(t, win, ja) h == F8Fine(t, win, ja + 1) top == F8Fine(t, win, JMax(t))
       z == IF t = "qfloat8_e5m2" THEN h + 2 ELSE 0
       IN <<-top - 1, -h, -((g + h) \div 2), -g, z, g, g + 1, (g + h) \div 2, h, h + 1, top, top + 7>>

InitTensor ==
  /\ mode = "tensor"
  /\ qt \in QTypes8 /\ w \in (IF qt = "qfloat8_e5m2" THEN {"hi"} ELSE Windows(qt))
  /\ shape \in Shapes /\ axis \in {0, -1}
  /\ ks = [i \in 1..AxisLen(axis, shape) |-> i - 1]          \* distinct scale exponent offsets
  /\ \E off \in 0..2 :
       ns = [p \in 1..Prod(shape) |->
               LET pts == TensorPoints(qt, w) IN pts[((p * 5 + off * 3) % Len(pts)) + 1]]
  /\ n = 0 /\ pc = "t0" /\ q = 0 /\ r = 0 /\ cl = 0 /\ code = <<>> /\ dq = 0 /\ code2 = <<>> /\ tcodes = <<>>

\* element p holds ns[p] fine units *of its own scale entry*; the as-built code divides by
\* the scale broadcast along `axis`, i.e. by entry ScaleIndex(axis, idx)
QuantizeTensor ==
  /\ mode = "tensor" /\ pc = "t0"
  /\ tcodes' = [p \in 1..Prod(shape) |-> AsBuiltCode(qt, w, ns[p])]
  /\ pc' = "tdone"
  /\ UNCHANGED <<mode, qt, w, n, q, r, cl, code, dq, code2, shape, axis, ks, ns>>

TensorNearest ==
  (mode = "tensor" /\ pc = "tdone") =>
     \A p \in 1..Prod(shape) : \E c \in Nearest(qt, w, ns[p]) : SameValue(qt, w, c, tcodes[p])

Init == InitElem \/ InitTensor
Next == Divide \/ Round \/ ClampStep \/ Cast \/ Dequant \/ Requant \/ QuantizeTensor

(* ---- case emission ---------------------------------------------------------------------
   Formats/exponents for which the case is exact in floating point: x = n*2^(k+fe), the
   scale 2^k, the quotient n*2^fe and the product value*2^(k+fe) are all representable. *)
Reps(t, win, x, vals) ==
  LET fe == FineExp(t, win) IN
  {<<f, k>> \in Fmts \X KSet :
      /\ Representable(x, k + fe, f) /\ Representable(x, fe, f) /\ Representable(1, k, f)
      /\ \A v \in vals : Representable(v, k + fe, f) /\ Representable(v, fe, f)}

SetToSeq2(S) == LET RECURSIVE H(_) H(T) == IF T = {} THEN <<>> ELSE LET e == CHOOSE e \in T : TRUE IN <<e>> \o H(T \ {e}) IN H(S)

ElemCase ==
  [mode |-> "elem", qt |-> qt, w |-> w, fe |-> FineExp(qt, w), n |-> n,
   code |-> code, dq |-> dq,
   nearest |-> SetToSeq2(Nearest(qt, w, n)),
   reps |-> SetToSeq2(Reps(qt, w, n, {dq}))]

TensorCase ==
  [mode |-> "tensor", qt |-> qt, w |-> w, fe |-> FineExp(qt, w), shape |-> shape, axis |-> axis,
   ks |-> ks, ns |-> ns, codes |-> tcodes,
   sidx |-> [p \in 1..Prod(shape) |-> ScaleIndex(axis, Unravel(p - 1, shape))],
   vals |-> [p \in 1..Prod(shape) |-> ValFine(qt, w, tcodes[p])]]

Emit == /\ (mode = "elem" /\ pc = "done") => PrintT(ToJson(ElemCase))
        /\ (mode = "tensor" /\ pc = "tdone") => PrintT(ToJson(TensorCase))

MCShapes == {<<2, 3>>, <<3, 2>>, <<2, 2, 3>>}
MCKSetQuick == {-6, 0, 3}
MCKSetThorough == {-20, -6, -1, 0, 3, 9}
=============================================================================
