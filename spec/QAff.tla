-------------------------------- MODULE QAff --------------------------------
(* Affine int2/int4 weight quantization (properties C02, C03 low-bit part, C16).

   As-built layer, one action per statement, in exact rational arithmetic (a real-number
   reading of the float code; on the lattice domain used for replay every float
   operation is exact, so there the model is the code):
     Reduce    MaxOptimizer.optimize: rmin / rmax per group   (optimizers/max_optimizer.py:30-32)
     ScaleZp   scale = (rmax-rmin)/(qmax-qmin); zeropoint = round(-rmin/scale).to(int8)  (:33-36)
     Quantize  clamp(round(base/scale) + zeropoint, 0, 2^bits-1).to(uint8)  (quantizers/affine.py:41)
     Dequant   scale * (codes.to(int8) - zeropoint.to(int8))    (qbits/qbits.py:33-38)
   plus the grouping index maps of qbits/group.py (Group / Ungroup).

   NoZeroHull = TRUE describes the tree as pinned (range taken over the group's values only,
   8-bit zero-point with two's-complement wrap); FALSE is the design in which the range
   always contains zero.  Abstract layer: HalfStepPerGroup, StepBound, ZpFits,
   RequantIdempotentAffine, UngroupInvertsGroup, GroupIsPerAxis.                          *)
EXTENDS Grids, TLC, Json

CONSTANTS NoZeroHull,      \* deviation switch (see above)
          Points,          \* directed element values (integers, arbitrary unit)
          GroupLen,        \* group length explored by the numeric machine
          GShapes          \* shapes explored by the grouping machine

VARIABLES mode, bits, grp, pc, rmin, rmax, zp, codes, dint,
          shape, axis, gs

vars == <<mode, bits, grp, pc, rmin, rmax, zp, codes, dint, shape, axis, gs>>

QMax(b) == 2^b - 1
Wrap8(z) == ((z + 128) % 256) - 128

RECURSIVE SeqMin(_)
SeqMin(s) == IF Len(s) = 1 THEN s[1] ELSE Min2(s[1], SeqMin(Tail(s)))
RECURSIVE SeqMax(_)
SeqMax(s) == IF Len(s) = 1 THEN s[1] ELSE Max2(s[1], SeqMax(Tail(s)))

HullMin(g) == Min2(SeqMin(g), 0)
HullMax(g) == Max2(SeqMax(g), 0)

(* ---- closed forms of the as-built pipeline (used by actions and by trace validation) -- *)
RMin(g, dev) == IF dev THEN SeqMin(g) ELSE HullMin(g)
RMax(g, dev) == IF dev THEN SeqMax(g) ELSE HullMax(g)
\* zero range: 0/0 -> NaN -> cast to int8 gives 0 on this platform; x/0 for x # 0 is +-inf
ZpOf(lo, hi, b) == IF hi = lo THEN 0 ELSE Wrap8(RNE(-lo * QMax(b), hi - lo))
CodeOf(x, lo, hi, z, b) ==
  IF hi = lo THEN (IF x > 0 THEN QMax(b) ELSE 0)        \* clamp(+-inf or NaN): NaN casts to 0
  ELSE Clamp(RNE(x * QMax(b), hi - lo) + z, 0, QMax(b))
DIntOf(c, z) == Wrap8(c - z)

(* ---- numeric machine ----------------------------------------------------------------- *)
RECURSIVE Tuples(_, _)
Tuples(S, k) == IF k = 0 THEN {<<>>} ELSE {<<x>> \o t : x \in S, t \in Tuples(S, k - 1)}

InitNum ==
  /\ mode = "num" /\ bits \in {2, 4}
  /\ grp \in Tuples(Points, GroupLen)
  /\ pc = "x" /\ rmin = 0 /\ rmax = 0 /\ zp = 0 /\ codes = <<>> /\ dint = <<>>
  /\ shape = <<>> /\ axis = 0 /\ gs = 0

(* exact lattice (replayed bit-exactly into the code): quarter-step units, the hull of the
   group and zero is exactly 4*Q*2^0 quarter steps, so the scale is one step = 4 units.   *)
LatticeGroups(b) ==
  LET q4 == 4 * QMax(b)
      inner(lo, hi) == {lo, lo + 1, lo + 2, lo + 3, lo + 5, (lo + hi) \div 2, (lo + hi) \div 2 + 1, hi - 6, hi - 2, hi - 1, hi} \cap (lo..hi)
      straddle == UNION {{<<lo, m, lo + q4>> : m \in {lo + 2, 0, 1, lo + q4 - 1, lo + 6} \cap (lo..(lo + q4))} : lo \in (-q4)..0}
      pos == {<<lo, m, q4>> : lo \in {0, 1, 2, 3, 5, q4 \div 2, q4 - 2, q4}, m \in inner(0, q4)}
      neg == {<<-q4, m, hi>> : hi \in {0, -1, -2, -3, -5, -(q4 \div 2), -q4 + 2, -q4}, m \in inner(-q4, 0)}
  IN straddle \cup pos \cup neg \cup {<<0, 0, 0>>}

InitLat ==
  /\ mode = "lat" /\ bits \in {2, 4}
  /\ grp \in LatticeGroups(bits)
  /\ pc = "x" /\ rmin = 0 /\ rmax = 0 /\ zp = 0 /\ codes = <<>> /\ dint = <<>>
  /\ shape = <<>> /\ axis = 0 /\ gs = 0

Reduce == /\ mode \in {"num", "lat"} /\ pc = "x"
          /\ rmin' = RMin(grp, NoZeroHull) /\ rmax' = RMax(grp, NoZeroHull)
          /\ pc' = "reduced"
          /\ UNCHANGED <<mode, bits, grp, zp, codes, dint, shape, axis, gs>>

ScaleZp == /\ pc = "reduced"
           /\ zp' = ZpOf(rmin, rmax, bits)
           /\ pc' = "scaled"
           /\ UNCHANGED <<mode, bits, grp, rmin, rmax, codes, dint, shape, axis, gs>>

Quantize == /\ pc = "scaled"
            /\ codes' = [i \in 1..Len(grp) |-> CodeOf(grp[i], rmin, rmax, zp, bits)]
            /\ pc' = "quantized"
            /\ UNCHANGED <<mode, bits, grp, rmin, rmax, zp, dint, shape, axis, gs>>

Dequant == /\ pc = "quantized"
           /\ dint' = [i \in 1..Len(grp) |-> DIntOf(codes[i], zp)]
           /\ pc' = "done"
           /\ UNCHANGED <<mode, bits, grp, rmin, rmax, zp, codes, shape, axis, gs>>

(* abstract properties; the dequantized value of element i is dint[i] * R / Q with
   R = rmax - rmin, Q = 2^bits - 1 *)
R == rmax - rmin
HalfStepOK(x, d, rr, b) == 2 * Abs(x * QMax(b) - d * rr) <= rr
HalfStepPerGroup ==
  (mode \in {"num", "lat"} /\ pc = "done") => \A i \in 1..Len(grp) : HalfStepOK(grp[i], dint[i], R, bits)
StepBound ==
  (mode = "num" /\ pc \in {"reduced", "scaled", "quantized", "done"}) => R <= HullMax(grp) - HullMin(grp)
ZpFits ==
  (mode = "num" /\ pc \in {"scaled", "quantized", "done"} /\ ~NoZeroHull) => zp \in 0..QMax(bits)
CodesFit ==
  (mode = "num" /\ pc \in {"quantized", "done"}) => \A i \in 1..Len(codes) : codes[i] \in 0..QMax(bits)
\* requantizing the dequantized values with the same scale and zero-point: round(d) + zp
RequantIdempotentAffine ==
  (mode = "num" /\ pc = "done" /\ ~NoZeroHull) =>
     \A i \in 1..Len(grp) : Clamp(dint[i] + zp, 0, QMax(bits)) = codes[i]
\* non-saturation (C03): no element is clamped by more than rounding (the two roundings of
\* round(x/scale) and round(-min/scale) can add up to one code at the ends)
NonSaturating ==
  (mode = "num" /\ pc = "done" /\ ~NoZeroHull /\ R > 0) =>
     \A i \in 1..Len(grp) : LET raw == RNE(grp[i] * QMax(bits), R) + zp IN raw \in -1..(QMax(bits) + 1)

(* ---- grouping machine ------------------------------------------------------------------ *)
RECURSIVE Prod(_)
Prod(s) == IF s = <<>> THEN 1 ELSE Head(s) * Prod(Tail(s))
RECURSIVE Unravel(_, _)
Unravel(p, s) == IF s = <<>> THEN <<>>
                 ELSE LET rest == Prod(Tail(s)) IN <<p \div rest>> \o Unravel(p % rest, Tail(s))
RECURSIVE Ravel(_, _)
Ravel(idx, s) == IF s = <<>> THEN 0 ELSE idx[1] * Prod(Tail(s)) + Ravel(Tail(idx), Tail(s))

AxisDim(s, ax) == IF ax = 0 THEN s[1] ELSE s[Len(s)]
AxisNumel(s, ax) == Prod(s) \div AxisDim(s, ax)
Divisors(n) == {d \in 1..n : n % d = 0}

\* as built: flat position p (0-based, row-major) of the source -> flat position in the
\* grouped tensor (group.py:18-26)
GroupedShape(s, ax, g) == IF ax = 0 THEN <<Prod(s) \div g, g>> ELSE <<g, Prod(s) \div g>>
GroupPos(s, ax, g, p) ==
  IF ax = 0 THEN p                                       \* reshape([-1, g]) keeps the flat order
  ELSE LET a   == AxisDim(s, ax)
           ag  == AxisNumel(s, ax) \div g
           i3  == Unravel(p, <<ag, g, a>>)               \* reshape((axis_groups, g, axis_dim))
           pm  == <<i3[2], i3[3], i3[1]>>                \* permute(1, 2, 0)
       IN Ravel(pm, <<g, a, ag>>)                         \* reshape(g, axis_dim * axis_groups)
\* which group (scale entry) and which slot a grouped flat position belongs to
GroupIdOfGrouped(s, ax, g, gp) == IF ax = 0 THEN gp \div g ELSE gp % (Prod(s) \div g)
SlotOfGrouped(s, ax, g, gp)    == IF ax = 0 THEN gp % g ELSE gp \div (Prod(s) \div g)
\* as built: ungroup (group.py:29-41), grouped flat position -> source flat position
UngroupPos(s, ax, g, gp) ==
  IF ax = 0 THEN gp
  ELSE LET a  == AxisDim(s, ax)
           ag == AxisNumel(s, ax) \div g
           i3 == Unravel(gp, <<g, a, ag>>)               \* reshape(g, axis_dim, axis_groups)
           pm == <<i3[3], i3[1], i3[2]>>                 \* permute(2, 0, 1)
       IN Ravel(pm, <<ag, g, a>>)                         \* reshape(orig)

\* abstract: the group of an element = (its index along the kept axis, the chunk of `g`
\* consecutive positions among the remaining, flattened dimensions)
AbsAxisIndex(s, ax, p) == LET idx == Unravel(p, s) IN IF ax = 0 THEN idx[1] ELSE idx[Len(s)]
AbsRemIndex(s, ax, p) ==
  LET idx == Unravel(p, s) IN
  IF ax = 0 THEN Ravel(Tail(idx), Tail(s)) ELSE Ravel(SubSeq(idx, 1, Len(s) - 1), SubSeq(s, 1, Len(s) - 1))
AbsGroup(s, ax, g, p) == <<AbsAxisIndex(s, ax, p), AbsRemIndex(s, ax, p) \div g>>

InitGrp ==
  /\ mode = "grp" /\ shape \in GShapes /\ axis \in {0, -1}
  /\ gs \in Divisors(AxisNumel(shape, axis))
  /\ bits = 0 /\ grp = <<>> /\ pc = "g0" /\ rmin = 0 /\ rmax = 0 /\ zp = 0 /\ codes = <<>> /\ dint = <<>>

DoGroup == /\ mode = "grp" /\ pc = "g0" /\ pc' = "gdone"
           /\ UNCHANGED <<mode, bits, grp, rmin, rmax, zp, codes, dint, shape, axis, gs>>

UngroupInvertsGroup ==
  (mode = "grp") => \A p \in 0..(Prod(shape) - 1) : UngroupPos(shape, axis, gs, GroupPos(shape, axis, gs, p)) = p
\* two elements share a scale entry iff they are in the same abstract group
GroupIsPerAxis ==
  (mode = "grp") =>
    \A p1, p2 \in 0..(Prod(shape) - 1) :
       (GroupIdOfGrouped(shape, axis, gs, GroupPos(shape, axis, gs, p1)) = GroupIdOfGrouped(shape, axis, gs, GroupPos(shape, axis, gs, p2)))
         <=> (AbsGroup(shape, axis, gs, p1) = AbsGroup(shape, axis, gs, p2))
GroupCountOK ==
  (mode = "grp") => Cardinality({AbsGroup(shape, axis, gs, p) : p \in 0..(Prod(shape) - 1)}) = Prod(shape) \div gs

Init == InitNum \/ InitLat \/ InitGrp
Next == Reduce \/ ScaleZp \/ Quantize \/ Dequant \/ DoGroup

(* ---- emission ----------------------------------------------------------------------------- *)
GrpCase == [mode |-> "grp", shape |-> shape, axis |-> axis, gs |-> gs,
            gpos |-> [p \in 1..Prod(shape) |-> GroupPos(shape, axis, gs, p - 1)],
            gid  |-> [p \in 1..Prod(shape) |-> GroupIdOfGrouped(shape, axis, gs, GroupPos(shape, axis, gs, p - 1))],
            slot |-> [p \in 1..Prod(shape) |-> SlotOfGrouped(shape, axis, gs, GroupPos(shape, axis, gs, p - 1))],
            gshape |-> GroupedShape(shape, axis, gs)]
LatCase == [mode |-> "lat", bits |-> bits, x |-> grp, rmin |-> rmin, rmax |-> rmax, zp |-> zp, codes |-> codes, dint |-> dint]
EmitGrp == /\ (mode = "grp" /\ pc = "gdone") => PrintT(ToJson(GrpCase))
           /\ (mode = "lat" /\ pc = "done") => PrintT(ToJson(LatCase))
LatticeScaleExact == (mode = "lat" /\ pc = "done") => (R = 4 * QMax(bits) \/ R = 0)

MCPoints == {-200, -130, -129, -128, -100, -16, -15, -3, -1, 0, 1, 2, 7, 8, 15, 16, 45, 60, 127, 128, 130, 200}
MCGShapes == {<<6>>, <<4, 6>>, <<6, 4>>, <<2, 2, 3>>, <<2, 3, 2>>, <<2, 1, 2, 3>>, <<3, 2, 1, 2>>}
=============================================================================
