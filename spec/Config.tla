------------------------------- MODULE Config -------------------------------
(* Accept-or-reject totality of the public quantization entry points and the automatic
   group size of quantized modules (property C14).

   As-built layer: the argument checks, in code order, of
     quantize_weight            tensor/qweight.py:49-70   (+ the optimizers' __call__ and group())
     quantize_activation        tensor/qactivation.py:37-39
     SymmetricQuantizer.forward tensor/quantizers/symmetric.py:33-52
     AffineQuantizer.forward    tensor/quantizers/affine.py:32-39
     group()                    tensor/qbits/group.py:8-15
     QModuleMixin.__init__      nn/qmodule.py:123-132 (AutoGroupSize)
   producing "VE:<check>" or an accepted result record.
   Abstract layer: Supported(cfg) written from the property statement; invariants
   RejectIsValueError, UnsupportedRejected, AcceptedHonoured, AutoGroupDivides.

   NoAxis = 99 stands for axis=None, NoGS = 0 for group_size=None (TLC cannot mix types). *)
EXTENDS Integers, Sequences, FiniteSets, TLC, Json

CONSTANTS CShapes, MaxInFeatures,
          Dev_C14_ScaleAxis      \* TRUE: the symmetric quantizer does not compare the scale layout with the requested axis (pinned tree)

NoAxis == 99
NoGS == 0

QT8 == {"qint8", "qfloat8_e4m3fn", "qfloat8_e5m2"}
QTLow == {"qint2", "qint4"}
Fns == {"quantize_weight", "quantize_activation", "SymmetricQuantizer", "AffineQuantizer"}
Optimizers == {"none", "sym", "aff"}
\* layout of the scale handed to a quantizer-level entry point
ScaleKinds == {"scalar", "axis0", "axislast", "vec_wrong_len", "flat_vector", "two_axes"}

VARIABLES fn, qt, shape, axis, gs, opt, sk, outcome, pc
vars == <<fn, qt, shape, axis, gs, opt, sk, outcome, pc>>

RECURSIVE Prod(_)
Prod(s) == IF s = <<>> THEN 1 ELSE Head(s) * Prod(Tail(s))
Rank(s) == Len(s)
\* python indexing t.shape[axis] for axis in -rank..rank-1
ValidIndex(s, ax) == ax # NoAxis /\ ax >= -Rank(s) /\ ax < Rank(s)
Dim(s, ax) == IF ax >= 0 THEN s[ax + 1] ELSE s[Rank(s) + ax + 1]

(* ---- scale shapes (as the harness builds them) ---------------------------------------- *)
Ones(n) == [i \in 1..n |-> 1]
ScaleShape(kind, s) ==
  CASE kind = "scalar"        -> <<>>
    [] kind = "axis0"         -> [Ones(Rank(s)) EXCEPT ![1] = s[1]]
    [] kind = "axislast"      -> [Ones(Rank(s)) EXCEPT ![Rank(s)] = s[Rank(s)]]
    [] kind = "vec_wrong_len" -> [Ones(Rank(s)) EXCEPT ![1] = s[1] + 1]
    [] kind = "flat_vector"   -> <<s[1]>>
    [] kind = "two_axes"      -> s
SNumel(kind, s) == Prod(ScaleShape(kind, s))
\* torch.squeeze(scale).ndim
SqueezedRank(ss) == Cardinality({i \in 1..Len(ss) : ss[i] # 1})

(* ---- as built ----------------------------------------------------------------------------- *)
GroupCheck(s, ax, g) ==           \* group(): returns "ok" or a ValueError tag
  IF ax \notin {0, -1} THEN "VE:group-axis"
  ELSE LET axis_numel == Prod(s) \div Dim(s, ax) IN
       IF g > axis_numel \/ axis_numel % g # 0 THEN "VE:group-size" ELSE "ok"

Accept(q, ax, g, count) == [ok |-> TRUE, qtype |-> q, axis |-> ax, gs |-> g, scales |-> count]
Reject(tag) == [ok |-> FALSE, tag |-> tag]

\* SymmetricQuantizer.forward(base, qtype, axis, scale)
SymQuantizer(s, q, ax, kind) ==
  LET ss == ScaleShape(kind, s) IN
  IF ax = NoAxis
  THEN (IF Len(ss) > 0 THEN Reject("VE:scalar-scale") ELSE Accept(q, NoAxis, NoGS, 1))
  ELSE IF Rank(s) = 1 THEN Reject("VE:1d-per-axis")
  ELSE LET ax2 == IF ax = Rank(s) - 1 THEN -1 ELSE ax IN
       IF ax2 \notin {0, -1} THEN Reject("VE:axis")
       ELSE IF Dim(s, ax2) = 1 THEN Reject("VE:axis-size-1")
       ELSE IF SqueezedRank(ss) > 1 THEN Reject("VE:multiple-axis")
       ELSE IF Len(ss) # Rank(s) THEN Reject("VE:scale-ndim")
       ELSE IF ~Dev_C14_ScaleAxis /\ (ss[IF ax2 = 0 THEN 1 ELSE Rank(s)] # Dim(s, ax2) \/ Prod(ss) # Dim(s, ax2)) THEN Reject("VE:scale-axis")
       ELSE Accept(q, ax2, NoGS, Prod(ss))

\* quantize_weight(t, qtype, axis, group_size, optimizer)
QuantizeWeight(s, q, ax, g, o) ==
  IF ax \notin {0, -1} THEN Reject("VE:axis")
  ELSE IF q \in QT8 THEN
       IF o \notin {"none", "sym"} THEN Reject("VE:optimizer")
       ELSE IF g # NoGS THEN Reject("VE:group-size-8bit")
       ELSE LET ax2 == IF Dim(s, ax) = 1 THEN NoAxis ELSE ax IN
            IF ax2 = NoAxis THEN Accept(q, NoAxis, NoGS, 1)
            ELSE SymQuantizer(s, q, ax2, IF ax2 = 0 THEN "axis0" ELSE "axislast")
  ELSE IF o \notin {"none", "aff"} THEN Reject("VE:optimizer")
       ELSE IF g # NoGS /\ GroupCheck(s, ax, g) # "ok" THEN Reject(GroupCheck(s, ax, g))
       ELSE Accept(q, ax, g, IF g = NoGS THEN (IF Rank(s) = 1 THEN 1 ELSE Dim(s, ax)) ELSE Prod(s) \div g)

\* quantize_activation(t, qtype, scale)
QuantizeActivation(s, q, kind) ==
  IF SNumel(kind, s) # 1 THEN Reject("VE:activation-scale")
  ELSE SymQuantizer(s, q, NoAxis, kind)

\* AffineQuantizer.forward(base, qtype, axis, group_size, scale, zeropoint)  (scale from the optimizer)
AffQuantizer(s, q, ax, g) ==
  IF q \notin QTLow THEN Reject("VE:qtype")
  ELSE IF ax \notin {0, -1} THEN Reject("VE:axis")
  ELSE IF g # NoGS /\ GroupCheck(s, ax, g) # "ok" THEN Reject(GroupCheck(s, ax, g))
  ELSE Accept(q, ax, g, IF g = NoGS THEN (IF Rank(s) = 1 THEN 1 ELSE Dim(s, ax)) ELSE Prod(s) \div g)

AsBuilt ==
  CASE fn = "quantize_weight"     -> QuantizeWeight(shape, qt, axis, gs, opt)
    [] fn = "quantize_activation" -> QuantizeActivation(shape, qt, sk)
    [] fn = "SymmetricQuantizer"  -> SymQuantizer(shape, qt, axis, sk)
    [] fn = "AffineQuantizer"     -> AffQuantizer(shape, qt, axis, gs)

(* ---- abstract: what the statement calls supported ------------------------------------------ *)
FirstOrLast(s, ax) == ax \in {0, -1} \/ (fn = "SymmetricQuantizer" /\ ax = Rank(s) - 1)
GsOK(s, ax, g) == g = NoGS \/ (LET an == Prod(s) \div Dim(s, ax) IN g <= an /\ an % g = 0)
ScaleMatches(s, ax, kind) ==
  IF ax = NoAxis THEN ScaleShape(kind, s) = <<>>
  ELSE LET last == (ax = -1 \/ ax = Rank(s) - 1) IN
       /\ Rank(s) >= 2 /\ Dim(s, ax) > 1
       /\ ScaleShape(kind, s) = ScaleShape(IF last THEN "axislast" ELSE "axis0", s)

Supported ==
  CASE fn = "quantize_weight" ->
         /\ axis \in {0, -1}
         /\ IF qt \in QT8 THEN opt \in {"none", "sym"} /\ gs = NoGS /\ (Rank(shape) >= 2 \/ Dim(shape, axis) = 1)
                          ELSE opt \in {"none", "aff"} /\ GsOK(shape, axis, gs)
    [] fn = "quantize_activation" -> SNumel(sk, shape) = 1
    [] fn = "SymmetricQuantizer"  -> (axis = NoAxis \/ FirstOrLast(shape, axis)) /\ ScaleMatches(shape, axis, sk)
    [] fn = "AffineQuantizer"     -> qt \in QTLow /\ axis \in {0, -1} /\ GsOK(shape, axis, gs)

\* what "fully honoured" means for an accepted result r
Honoured(r) ==
  /\ r.qtype = qt
  \* (an accepted call whose axis does not even index the shape honours nothing: decided before Dim is evaluated)
  /\ CASE fn = "quantize_weight" ->
            /\ ValidIndex(shape, axis)
            /\ r.gs = gs
            /\ IF qt \in QT8 THEN (r.axis = axis /\ r.scales = Dim(shape, axis)) \/ (r.axis = NoAxis /\ Dim(shape, axis) = 1 /\ r.scales = 1)
               ELSE r.axis = axis
       [] fn = "quantize_activation" -> r.axis = NoAxis /\ r.scales = 1
       [] fn = "SymmetricQuantizer" ->
            IF axis = NoAxis THEN r.axis = NoAxis /\ r.scales = 1
            ELSE ValidIndex(shape, axis) /\ r.axis = (IF axis = Rank(shape) - 1 THEN -1 ELSE axis) /\ r.scales = Dim(shape, axis)
       [] fn = "AffineQuantizer" -> r.axis = axis /\ r.gs = gs

(* ---- state machine ---------------------------------------------------------------------------- *)
Init ==
  /\ fn \in Fns /\ shape \in CShapes
  /\ qt \in (IF fn \in {"quantize_activation", "SymmetricQuantizer"} THEN QT8 ELSE QT8 \cup QTLow)
  /\ axis \in (IF fn = "quantize_activation" THEN {NoAxis} ELSE {NoAxis} \cup {a \in -2..2 : ValidIndex(shape, a) \/ a \in {0, -1}})
  /\ (axis # NoAxis) => ValidIndex(shape, axis)
  /\ gs \in (IF fn \in {"quantize_weight", "AffineQuantizer"} THEN {NoGS} \cup 1..(2 * Prod(shape)) ELSE {NoGS})
  /\ opt \in (IF fn = "quantize_weight" THEN Optimizers ELSE {"none"})
  /\ sk \in (IF fn \in {"quantize_activation", "SymmetricQuantizer"} THEN ScaleKinds ELSE {"scalar"})
  /\ (sk = "vec_wrong_len" \/ sk = "two_axes") => Rank(shape) >= 2
  /\ outcome = [ok |-> FALSE, tag |-> "pending"] /\ pc = "call"

Evaluate == /\ pc = "call" /\ outcome' = AsBuilt /\ pc' = "returned"
            /\ UNCHANGED <<fn, qt, shape, axis, gs, opt, sk>>
Next == Evaluate

RejectIsValueError == pc = "returned" => (outcome.ok \/ SubSeq(outcome.tag, 1, 3) = "VE:")
UnsupportedRejected == (pc = "returned" /\ ~Supported) => ~outcome.ok
AcceptedHonoured == (pc = "returned" /\ outcome.ok) => Honoured(outcome)
\* not required by the statement, but true of the design: everything supported is accepted
SupportedAccepted == (pc = "returned" /\ Supported) => outcome.ok

Case == [fn |-> fn, qt |-> qt, shape |-> shape, axis |-> axis, gs |-> gs, opt |-> opt, sk |-> sk,
         sshape |-> ScaleShape(sk, shape), supported |-> Supported, outcome |-> outcome]
Emit == pc = "returned" => PrintT(ToJson(Case))

(* ---- automatic group size ------------------------------------------------------------------------ *)
RECURSIVE Search(_, _)
Search(inf, g) == IF inf % g # 0 /\ g > 32 THEN Search(inf, g - 32) ELSE g
AutoGroupSize(inf) ==
  IF inf > 128 THEN (LET g == Search(inf, 128) IN IF inf % g = 0 THEN g ELSE NoGS) ELSE NoGS
AutoGroupDivides ==
  \A inf \in 1..MaxInFeatures :
     LET g == AutoGroupSize(inf) IN g # NoGS => (inf % g = 0 /\ g \in {32, 64, 96, 128} /\ g <= inf)
AutoGroupMaximal ==      \* the largest admissible candidate is chosen
  \A inf \in 129..MaxInFeatures :
     LET g == AutoGroupSize(inf) IN \A c \in {32, 64, 96, 128} : (inf % c = 0) => (g # NoGS /\ g >= c)
ASSUME AutoGroupDivides /\ AutoGroupMaximal
AutoTable == [inf \in 1..MaxInFeatures |-> AutoGroupSize(inf)]

MCShapes == {<<6>>, <<1>>, <<2, 3>>, <<3, 3>>, <<1, 4>>, <<4, 1>>, <<2, 2, 3>>, <<2, 1, 2, 2>>}
=============================================================================
