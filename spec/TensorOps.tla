----------------------------- MODULE TensorOps -----------------------------
(* Programs of tensor operations on quantized tensors (properties C05, C06).

   The state is the *metadata* of one working tensor `cur` (what kind of object it is,
   which qtype / axis it declares, its logical shape and the shape of its payload) and the
   program executed so far.  Values are not modelled here: every step of a program is
   executed on the real code together with its float twin, and Trace_TensorOps decides
   value equivalence in exact arithmetic.

   As-built layer: QSem - a transcription of the dispatch tables
       tensor/qbytes_ops.py:61-319, tensor/qbits/qbits_ops.py:51-70,
       tensor/qtensor_func.py:52-70, qfallback (tensor/qtensor.py:21-29)
   at the level of "stays quantized / falls back to a plain tensor / raises", with the
   metadata each implementation re-wraps with.  Deviations of the pinned tree are
   separate, switchable branches (the Dev_ constants).
   Abstract layer: FloatSem (shape algebra of the float operation), WellFormed,
   NoSpuriousRaise.                                                                     *)
EXTENDS Integers, Sequences, FiniteSets, TLC, Json

CONSTANTS MaxDepth,
          Dev_C06_SplitStaleSize,   \* split re-wraps every chunk with the un-split size
          Dev_C05_StackFallback,    \* stack falls back through qfallback(inputs, dim) -> TypeError
          Dev_C05_T1D,              \* t() of a rank-1 quantized tensor raises (size unpacking)
          Dev_C05_WhereOther,       \* where(mask, q, q_other) raises NotImplementedError
          Dev_C05_LtFloat8,         \* lt on two float8 tensors with equal scales hits a missing torch kernel
          Dev_C05_CopyPlain         \* copy_ between a plain and a quantized tensor raises

VARIABLES init, cur, prog, pc
vars == <<init, cur, prog, pc>>

RECURSIVE Prod(_)
Prod(s) == IF s = <<>> THEN 1 ELSE Head(s) * Prod(Tail(s))
Rank(s) == Len(s)
RemoveAt(s, i) == SubSeq(s, 1, i - 1) \o SubSeq(s, i + 1, Len(s))
InsertAt(s, i, v) == SubSeq(s, 1, i - 1) \o <<v>> \o SubSeq(s, i, Len(s))
Swap(s, a, b) == [s EXCEPT ![a] = s[b], ![b] = s[a]]

(* ---- float semantics: result shape of each operation (dims are 1-based here) ----------- *)
ReshapeTargets == {<<6>>, <<2, 3>>, <<3, 2>>, <<1, 6>>, <<2, 1, 3>>, <<4>>, <<2, 2>>, <<12>>, <<2, 6>>, <<4, 3>>, <<3, 4>>}
Perms(n) == IF n = 2 THEN {<<2, 1>>} ELSE IF n = 3 THEN {<<2, 1, 3>>, <<3, 1, 2>>, <<3, 2, 1>>} ELSE {}
Permute(s, p) == [i \in 1..Len(s) |-> s[p[i]]]

\* the operations (with parameters) that are valid float programs on a tensor of shape s
Ops(s) ==
     {[op |-> "view", shape |-> t] : t \in {t \in ReshapeTargets : Prod(t) = Prod(s) /\ t # s}}
  \cup (IF Rank(s) >= 2 THEN {[op |-> "transpose", d0 |-> 1, d1 |-> Rank(s)]} ELSE {})
  \cup (IF Rank(s) <= 2 THEN {[op |-> "t"]} ELSE {})
  \cup {[op |-> "permute", perm |-> p] : p \in Perms(Rank(s))}
  \cup {[op |-> "select", dim |-> d, index |-> s[d] - 1] : d \in {d \in 1..Rank(s) : s[d] >= 1}}
  \cup {[op |-> "slice", dim |-> d, start |-> 1, stop |-> s[d]] : d \in {d \in 1..Rank(s) : s[d] >= 2}}
  \cup {[op |-> "unsqueeze", dim |-> d] : d \in {1, Rank(s) + 1}}
  \cup {[op |-> "slice_step", dim |-> d] : d \in {d \in 1..Rank(s) : s[d] >= 3}}          \* x[..., ::2, ...]
  \cup {[op |-> "select_neg", dim |-> d] : d \in {d \in 1..Rank(s) : s[d] >= 2}}          \* negative dim and index
  \cup (IF \E d \in 1..Rank(s) : s[d] = 1 THEN {[op |-> "squeeze"]} ELSE {})
  \cup (IF Rank(s) >= 2 THEN {[op |-> "flatten"]} ELSE {})
  \cup {[op |-> "expand"]}
  \cup {[op |-> o, dim |-> d, aux |-> a] : o \in {"cat", "stack"}, d \in {1, Rank(s)}, a \in {"same", "scale2", "otherq", "plain", "three", "scaled_self"}}
  \cup {[op |-> "split", dim |-> d, size |-> 1, take |-> 1] : d \in {d \in 1..Rank(s) : s[d] >= 2}}
  \cup {[op |-> o, k |-> k] : o \in {"mul", "div"}, k \in {2, 3, -1}}
  \cup {[op |-> o, k |-> 2] : o \in {"mul_t", "div_t", "rmul"}}                            \* 0-dim tensor scalar; scalar on the left
  \cup {[op |-> o, k |-> 2, oshape |-> os] : o \in {"mul_t1", "div_t1"}, os \in {<<1>>, <<1, 1>>}}   \* one-element tensors that are NOT scalars
  \cup {[op |-> "div_tensor", aux |-> a] : a \in {"same", "plain", "scaled_self"}}
  \cup {[op |-> "add_tensor", aux |-> a] : a \in {"same", "scaled_self"}}
  \cup {[op |-> o] : o \in {"neg", "relu", "clone", "detach", "abs", "add1", "sum", "gelu", "contiguous", "roundtrip"}}
  \* pass-through functions called with KEYWORD arguments (the fallback must hand them on): x.sum(dim=-1, keepdim=True),
  \* torch.clamp(x, min=.., max=..), F.gelu(x, approximate="tanh"), torch.mean(x, dim=0)
  \cup {[op |-> o] : o \in {"sum_kw", "clamp_kw", "gelu_kw", "mean_kw"}}
  \cup {[op |-> "softmax", dim |-> Rank(s)]}
  \cup {[op |-> "where", aux |-> a] : a \in {"plain", "same"}}
  \cup {[op |-> "lt", aux |-> a] : a \in {"same", "scale2", "otherq", "plain", "scaled_self"}}
  \cup {[op |-> "to", dtype |-> d] : d \in {"float16", "float32"}}
  \cup {[op |-> "copy_", aux |-> a] : a \in {"same", "plain"}}
  \cup {[op |-> "to_device"]}                                                              \* x.to(device, copy = True)
  \* contractions (qbytes_ops.py mm / bmm, qtensor_func.py linear): second operand plain, quantized alike, quantized otherwise
  \cup {[op |-> "matmul", aux |-> a] : a \in {"plain", "same", "otherq"}}                    \* x @ M,  M : [last, 2]
  \cup (IF Rank(s) = 3 THEN {[op |-> "bmm", aux |-> a] : a \in {"plain", "same"}} ELSE {})    \* torch.bmm(x, B),  B : [s1, last, 2]
  \cup {[op |-> "linear", aux |-> a] : a \in {"plain", "qw8", "qw4", "qw8_last", "qw8_tensor"}}   \* F.linear(x, W),  W : [2, last] (float; qint8 per row / per column / per tensor; qint4)

FloatShape(s, o) ==
  CASE o.op = "view" -> o.shape
    [] o.op = "transpose" -> Swap(s, o.d0, o.d1)
    [] o.op = "t" -> IF Rank(s) = 2 THEN <<s[2], s[1]>> ELSE s
    [] o.op = "permute" -> Permute(s, o.perm)
    [] o.op = "select" -> RemoveAt(s, o.dim)
    [] o.op = "slice" -> [s EXCEPT ![o.dim] = o.stop - o.start]
    [] o.op = "unsqueeze" -> InsertAt(s, o.dim, 1)
    [] o.op = "slice_step" -> [s EXCEPT ![o.dim] = (s[o.dim] + 1) \div 2]
    [] o.op = "select_neg" -> RemoveAt(s, o.dim)
    [] o.op = "squeeze" -> SelectSeq(s, LAMBDA x : x # 1)
    [] o.op = "flatten" -> <<Prod(s)>>
    [] o.op = "expand" -> <<2>> \o s
    [] o.op = "cat" -> [s EXCEPT ![o.dim] = (IF o.aux = "three" THEN 3 ELSE 2) * s[o.dim]]
    [] o.op = "stack" -> InsertAt(s, o.dim, IF o.aux = "three" THEN 3 ELSE 2)
    [] o.op = "split" -> [s EXCEPT ![o.dim] = o.size]
    [] o.op = "sum" -> <<>>
    [] o.op = "sum_kw" -> [s EXCEPT ![Rank(s)] = 1]
    [] o.op = "mean_kw" -> Tail(s)
    [] o.op \in {"matmul", "bmm", "linear"} -> IF Rank(s) = 1 THEN <<2>> ELSE [s EXCEPT ![Rank(s)] = 2]
    [] o.op \in {"mul_t1", "div_t1"} -> IF Len(o.oshape) > Rank(s) THEN <<1>> \o s ELSE s       \* broadcasting with (1,) / (1, 1)
    [] OTHER -> s

(* ---- as built ------------------------------------------------------------------------------ *)
IsQ(c) == c.kind \in {"QBytes", "QBits"}
PerTensor(c) == c.kind = "QBytes" /\ c.axis = "none"
IntQ(c) == c.qt = "qint8"
Plain(c, s) == [kind |-> "Plain", qt |-> "none", axis |-> "none", shape |-> s, pshape |-> s, dtype |-> c.dtype, why |-> ""]
QB(c, ax, s, ps) == [kind |-> "QBytes", qt |-> c.qt, axis |-> ax, shape |-> s, pshape |-> ps, dtype |-> c.dtype, why |-> ""]
\* an exception of type t; why = "refusal" (documented) or the name of the deviation that produces it
RaiseW(t, w) == [kind |-> "Raise", qt |-> t, axis |-> "none", shape |-> <<>>, pshape |-> <<>>, dtype |-> "none", why |-> w]
Raise(t) == RaiseW(t, "deviation")
\* both operands per-tensor QBytes of the same qtype with equal scales
AuxCompatible(c, o) == PerTensor(c) /\ o.aux = "same"

QSem(c, o) ==
  LET fs == FloatShape(c.shape, o) IN
  IF c.kind = "Plain" THEN
     \* the working tensor is plain: quantized second operands go through the same tables
     (IF o.op = "copy_" /\ o.aux = "same" /\ Dev_C05_CopyPlain THEN Raise("AttributeError")
      ELSE IF o.op = "where" /\ o.aux = "same" /\ Dev_C05_WhereOther THEN Raise("NotImplementedError")
      ELSE IF o.op = "stack" /\ o.aux # "plain" /\ Dev_C05_StackFallback THEN Raise("TypeError")
      ELSE Plain(c, fs))
  ELSE IF c.kind = "QBits" THEN
     (IF o.op \in {"detach", "contiguous", "clone", "roundtrip", "to_device"} THEN c   \* contiguous() of a contiguous tensor returns self; clone keeps the class
      ELSE IF o.op = "copy_" THEN c                           \* falls back on a temporary: the destination keeps its values (known finding)
      ELSE IF o.op = "to" THEN (IF o.dtype # c.dtype THEN RaiseW("ValueError", "refusal") ELSE c)
      ELSE IF o.op = "stack" /\ Dev_C05_StackFallback THEN Plain(c, fs)
      ELSE Plain(c, fs))
  ELSE \* QBytes
  CASE o.op \in {"view", "permute", "select", "slice", "unsqueeze", "expand", "transpose", "slice_step", "select_neg", "flatten"} ->
         IF PerTensor(c) THEN QB(c, "none", fs, fs) ELSE Plain(c, fs)
    [] o.op = "contiguous" -> QB(c, c.axis, fs, fs)
    [] o.op = "t" ->
         IF Rank(c.shape) # 2 THEN (IF Dev_C05_T1D THEN Raise("ValueError") ELSE c)
         ELSE QB(c, IF c.axis = "none" THEN "none" ELSE IF c.axis = "first" THEN "last" ELSE "first", fs, fs)
    [] o.op = "cat" ->
         IF AuxCompatible(c, o) /\ IntQ(c) THEN QB(c, "none", fs, fs) ELSE Plain(c, fs)
    [] o.op = "stack" ->
         IF AuxCompatible(c, o) THEN QB(c, "none", fs, fs)
         ELSE IF Dev_C05_StackFallback THEN Raise("TypeError") ELSE Plain(c, fs)
    [] o.op = "split" ->
         IF PerTensor(c) THEN (IF Dev_C06_SplitStaleSize THEN QB(c, "none", c.shape, fs) ELSE QB(c, "none", fs, fs))
         ELSE Plain(c, fs)
    [] o.op \in {"mul", "div", "mul_t", "div_t", "rmul"} -> IF o.k > 0 THEN QB(c, c.axis, fs, c.pshape) ELSE Plain(c, fs)    \* only positive scalars are folded into the scale
    [] o.op \in {"div_tensor", "add_tensor", "mul_t1", "div_t1"} -> Plain(c, fs)
    [] o.op \in {"neg", "relu"} -> IF IntQ(c) THEN QB(c, c.axis, fs, c.pshape) ELSE Plain(c, fs)
    [] o.op \in {"clone", "detach", "roundtrip", "to_device"} -> c        \* roundtrip: save_to_state_dict then load_from_state_dict
    [] o.op = "softmax" -> QB(c, "none", fs, fs)
    [] o.op = "where" ->
         IF o.aux = "same" THEN (IF Dev_C05_WhereOther THEN Raise("NotImplementedError") ELSE Plain(c, fs))
         ELSE IF PerTensor(c) THEN QB(c, "none", fs, fs) ELSE Plain(c, fs)
    [] o.op = "lt" ->
         IF o.aux = "same" /\ ~IntQ(c) /\ Dev_C05_LtFloat8 THEN Raise("NotImplementedError")
         ELSE [Plain(c, fs) EXCEPT !.dtype = "bool"]
    [] o.op = "to" -> [QB(c, c.axis, fs, c.pshape) EXCEPT !.dtype = o.dtype]
    [] o.op = "copy_" ->
         IF o.aux = "same" THEN c
         ELSE IF Dev_C05_CopyPlain THEN Raise("AttributeError") ELSE c
    [] OTHER -> Plain(c, fs)          \* abs, add1, sum, gelu: qfallback; matmul / bmm / linear: a plain result on every route

(* ---- state machine -------------------------------------------------------------------------- *)
InitShapes == {<<2, 3>>, <<3, 2>>, <<6>>, <<2, 1, 3>>}
InitTensors ==
     {[kind |-> "QBytes", qt |-> q, axis |-> "none", shape |-> s, pshape |-> s, dtype |-> "float32", why |-> ""] :
          q \in {"qint8", "qfloat8_e4m3fn", "qfloat8_e5m2"}, s \in InitShapes}
  \cup {[kind |-> "QBytes", qt |-> q, axis |-> a, shape |-> s, pshape |-> s, dtype |-> "float32", why |-> ""] :
          q \in {"qint8", "qfloat8_e4m3fn"}, a \in {"first", "last"}, s \in {<<2, 3>>, <<3, 2>>}}
  \cup {[kind |-> "QBits", qt |-> q, axis |-> "first", shape |-> s, pshape |-> s, dtype |-> "float32", why |-> ""] :
          q \in {"qint4", "qint2"}, s \in {<<2, 3>>, <<3, 2>>, <<2, 4>>}}      \* <<2, 4>> is instantiated with group size 2 (two groups per row)
  \cup {[kind |-> "Plain", qt |-> "none", axis |-> "none", shape |-> s, pshape |-> s, dtype |-> "float32", why |-> ""] : s \in {<<2, 3>>}}

Init == init \in InitTensors /\ cur = init /\ prog = <<>> /\ pc = "run"

\* operations that need a working tensor of float dtype (lt / sum end the program with a bool / scalar)
Step(o) ==
  /\ pc = "run" /\ Len(prog) < MaxDepth
  /\ cur.dtype # "bool" /\ Rank(cur.shape) >= 1
  /\ o \in Ops(cur.shape)
  /\ LET r == QSem(cur, o) IN
       /\ cur' = r
       /\ pc' = IF r.kind = "Raise" THEN "raised" ELSE "run"
  /\ prog' = Append(prog, o) /\ UNCHANGED init

Next == \E o \in Ops(cur.shape) : Step(o)

(* ---- abstract properties ---------------------------------------------------------------------- *)
\* C06: what the wrapper reports is what it holds
WellFormed ==
  IsQ(cur) => /\ cur.shape = cur.pshape
              /\ cur.axis \in {"none", "first", "last"}
              /\ (cur.axis # "none" => Rank(cur.shape) >= 2)
\* C05: a valid float program never raises, except for the documented refusals
NoSpuriousRaise == pc = "raised" => cur.why = "refusal"

Terminal == pc = "raised" \/ Len(prog) = MaxDepth \/ cur.dtype = "bool" \/ Rank(cur.shape) = 0
View == <<cur, pc, Len(prog)>>
Skeleton == [init |-> init, prog |-> prog, final |-> cur]
Emit == (Terminal /\ Len(prog) >= 1) => PrintT(ToJson(Skeleton))
=============================================================================
