---- MODULE ExactTest ----
EXTENDS Exact, TLC, Json, IOUtils
T == JsonDeserialize(IOEnv.TRACE_FILE)
Check(t) == /\ BAdd(t.a, t.b) = t.add
            /\ BAbsDiff(t.a, t.b) = t.absdiff
            /\ BCmp(t.a, t.b) = t.cmp
            /\ BMulS(t.a, t.k) = t.muls
            /\ BMul(t.a, t.b) = t.mul
            /\ BShl(t.a, t.n) = t.shl
            /\ BShr(t.a, t.n) = t.shr
            /\ BShrCeil(t.a, t.n) = t.shrc
            /\ SAdd(t.x, t.y) = t.sadd /\ SSub(t.x, t.y) = t.ssub /\ SCmp(t.x, t.y) = t.scmp
            /\ SMulI(t.x, t.sk) = t.smul
Bad == {i \in 1..Len(T) : ~Check(T[i])}
ASSUME PrintT(<<"tests", Len(T), "bad", Bad>>)
ASSUME Bad = {}
VARIABLE x
Init == x = 0
Next == FALSE /\ x' = x
====
