-------------------------------- MODULE AWQ --------------------------------
(* AWQ packings of 4-bit matrices and the AWQ-optimised weight representation (C15).

   A layout is a position map: source element (n, k) of an (N, K) matrix of 4-bit values
   goes to <<row, col, nibble>> of the packed integer matrix.

   As-built layer (tensor/qbits/awq/packed.py):
     PosV1(reorder)  pack():    packed[n, k \div 8] |= x[n, 8*(k \div 8) + order[i]] << 4i     (:48-59)
     UnposV1         unpack():  shifts, reverse_awq_order                                      (:62-106)
     PosV2           pack_v2(): the reshape / permute chain, composed literally               (:140-162)
     UnposV2         unpack_v2(): the inverse chain, composed literally                        (:185-210)
   and the reference packer shipped in external/awq/pack_intweight.py (PosRef), transcribed
   separately.  Abstract layer: Bijective, UnpackInvertsPack, V2EqualsReference.

   Second part: the optimised representation AWQBitsTensor (awq/qbits.py:58-86) as functions
   on (codes, scale, zero-point) of one group: ToOptimised, DequantOpt, ToStandard.         *)
EXTENDS Integers, Sequences, FiniteSets, TLC, Json

CONSTANTS Shapes2,   \* <<N, K>> for the v2 layout (N multiple of 4, K multiple of 64)
          Shapes1,   \* <<N, K>> for the v1 layout (K multiple of 8)
          Dev_C15_QBitsTensor   \* TRUE: qbits_tensor() hands un-grouped codes and scaled float zero-points over (pinned tree)

VARIABLES layout, N, K, pc
vars == <<layout, N, K, pc>>

RECURSIVE Prod(_)
Prod(s) == IF s = <<>> THEN 1 ELSE Head(s) * Prod(Tail(s))
RECURSIVE Unravel(_, _)
Unravel(p, s) == IF s = <<>> THEN <<>> ELSE LET r == Prod(Tail(s)) IN <<p \div r>> \o Unravel(p % r, Tail(s))
RECURSIVE Ravel(_, _)
Ravel(idx, s) == IF s = <<>> THEN 0 ELSE idx[1] * Prod(Tail(s)) + Ravel(Tail(idx), Tail(s))
PermuteSeq(s, perm) == [i \in 1..Len(s) |-> s[perm[i]]]
\* x.reshape(shape).permute(perm) then made contiguous: flat position p (row-major in `shape`) -> new flat position
Step(shape, perm, p) == Ravel(PermuteSeq(Unravel(p, shape), perm), PermuteSeq(shape, perm))
\* inverse view: position q of the permuted, contiguous tensor came from which source position
InvPerm(perm) == [i \in 1..Len(perm) |-> CHOOSE j \in 1..Len(perm) : perm[j] = i]

(* ---- v1 ---------------------------------------------------------------------------------------- *)
AWQ_ORDER == <<0, 2, 4, 6, 1, 3, 5, 7>>
AWQ_REVERSE_ORDER == <<0, 4, 1, 5, 2, 6, 3, 7>>
Identity8 == <<0, 1, 2, 3, 4, 5, 6, 7>>
OrderMap(reorder) == IF reorder THEN AWQ_ORDER ELSE Identity8
\* nibble i of packed[n, col] holds x[n, 8 col + order[i]]
PosV1(reorder, n, k) ==
  LET col == k \div 8  w == k % 8
      i == CHOOSE i \in 0..7 : OrderMap(reorder)[i + 1] = w
  IN <<n, col, i>>
\* unpack: out[n, 8 col + j] = nibble (if reorder then REVERSE[j] else j) of packed[n, col]
UnposV1(reorder, n, k) ==
  LET col == k \div 8  j == k % 8 IN <<n, col, IF reorder THEN AWQ_REVERSE_ORDER[j + 1] ELSE j>>

(* ---- v2 ---------------------------------------------------------------------------------------- *)
PosV2(n, k, NN, KK) ==
  LET p0 == n * KK + k
      p1 == Step(<<NN, KK \div 32, 4, 4, 2>>, <<1, 2, 4, 3, 5>>, p0)        \* reshape(N, K/32, 4, 4, 2).permute(0, 1, 3, 2, 4)
      p2 == Step(<<NN, KK \div 32, 4, 4, 2>>, <<1, 2, 3, 5, 4>>, p1)        \* .permute(0, 1, 2, 4, 3).reshape(N, K)
      p3 == Step(<<NN \div 4, 4, KK \div 64, 64>>, <<1, 3, 2, 4>>, p2)      \* reshape(N/I, I, K/S, S).permute(0, 2, 1, 3)
      q  == Unravel(p3, <<NN \div 4, KK \div 64, 64, 4>>)                    \* reshape(N/I, K/S, S, I); last dim = nibble
  IN <<q[1], q[2] * 64 + q[3], q[4]>>
\* the reference packer (external/awq/pack_intweight.py), its own chain of reshapes / transposes
PosRef(n, k, NN, KK) ==
  LET p0 == n * KK + k
      p1 == Step(<<NN, KK \div 32, 4, 4, 2>>, <<1, 2, 4, 3, 5>>, p0)        \* reshape(N, K//32, 4, 4, 2).transpose(0, 1, 3, 2, 4).reshape(N, K//32, 32)
      p2 == Step(<<NN, KK \div 32, 4, 4, 2>>, <<1, 2, 3, 5, 4>>, p1)        \* reshape(N, K//32, 4, 4, 2).transpose(0, 1, 2, 4, 3).reshape(N, K)
      p3 == Step(<<NN \div 4, 4, KK \div 64, 64>>, <<1, 3, 2, 4>>, p2)      \* reshape(N//4, 4, K//64, 64).transpose(0, 2, 1, 3)
      q  == Unravel(p3, <<NN \div 4, KK \div 64, 64, 4>>)                    \* reshape(N//4, K//64, 64, 4), packed along the last axis
  IN <<q[1], q[2] * 64 + q[3], q[4]>>
\* unpack_v2: where does output element (n, k) read from
UnposV2(n, k, NN, KK) ==
  LET o  == n * KK + k                                                        \* position in the final (N, K) result
      \* final steps: reshape(N, K/32, 4, 2, 4).permute(0,1,2,4,3) ; .permute(0,1,3,2,4) ; reshape(N, K): invert them
      a2 == Step(<<NN, KK \div 32, 4, 4, 2>>, InvPerm(<<1, 2, 4, 3, 5>>), o)       \* undo permute(0, 1, 3, 2, 4)   (shape of its input: N,K/32,4,4,2)
      a1 == Step(<<NN, KK \div 32, 4, 4, 2>>, InvPerm(<<1, 2, 3, 5, 4>>), a2)      \* undo permute(0, 1, 2, 4, 3)   (input shape N,K/32,4,2,4 -> output N,K/32,4,4,2)
      \* a1 is a position in the (N, K) matrix after de-interleaving: reshape(N/I, K/S, I, S).permute(0, 2, 1, 3).reshape(N, K)
      a0 == Step(<<NN \div 4, 4, KK \div 64, 64>>, InvPerm(<<1, 3, 2, 4>>), a1)
      \* a0 indexes (N/I, K/S, I, S) obtained by *reshaping* (N/I, K/S, S, I)
      q  == Unravel(a0, <<NN \div 4, KK \div 64, 64, 4>>)
  IN <<q[1], q[2] * 64 + q[3], q[4]>>

(* ---- state machine: one state per layout and shape ------------------------------------------------ *)
Init == /\ \/ (layout = "v2" /\ \E s \in Shapes2 : N = s[1] /\ K = s[2])
           \/ (layout \in {"v1", "v1r"} /\ \E s \in Shapes1 : N = s[1] /\ K = s[2])
        /\ pc = "fresh"
Analyse == pc = "fresh" /\ pc' = "analysed" /\ UNCHANGED <<layout, N, K>>
Next == Analyse

Pos(n, k) == IF layout = "v2" THEN PosV2(n, k, N, K) ELSE PosV1(layout = "v1r", n, k)
Unpos(n, k) == IF layout = "v2" THEN UnposV2(n, k, N, K) ELSE UnposV1(layout = "v1r", n, k)
Sources == (0..(N - 1)) \X (0..(K - 1))
PackedRows == IF layout = "v2" THEN N \div 4 ELSE N
PackedCols == IF layout = "v2" THEN K ELSE K \div 8
Nibbles == IF layout = "v2" THEN 4 ELSE 8

Bijective ==
  pc = "analysed" =>
    /\ \A s \in Sources : LET d == Pos(s[1], s[2]) IN d[1] \in 0..(PackedRows - 1) /\ d[2] \in 0..(PackedCols - 1) /\ d[3] \in 0..(Nibbles - 1)
    /\ Cardinality({Pos(s[1], s[2]) : s \in Sources}) = N * K
UnpackInvertsPack == pc = "analysed" => \A s \in Sources : Unpos(s[1], s[2]) = Pos(s[1], s[2])
V2EqualsReference == (pc = "analysed" /\ layout = "v2") => \A s \in Sources : PosV2(s[1], s[2], N, K) = PosRef(s[1], s[2], N, K)

Case == [layout |-> layout, N |-> N, K |-> K,
         dest |-> [p \in 1..(N * K) |-> Pos((p - 1) \div K, (p - 1) % K)]]
Emit == pc = "analysed" => PrintT(ToJson(Case))

(* ---- optimised representation, one group (codes u[i] in 0..15, integer zero-point z, scale s) --------
   standard :  value_i = s * (u_i - z)
   optimised:  scale s, zero-point zf = -(z * s)  (float)  ->  value_i = s * u_i + zf              *)
ToOptimisedZp(z, s) == -(z * s)
DequantOpt(u, s, zf) == s * u + zf
DequantStd(u, s, z) == s * (u - z)
\* conversion back: as intended (regroup, recover the integer zero-point) / as built on the pinned tree
ToStandardZp(zf, s) == IF Dev_C15_QBitsTensor THEN zf ELSE -(zf \div s)
RepresentationsAgree == \A u \in 0..15, z \in 0..15, s \in {1, 2, 3} : DequantOpt(u, s, ToOptimisedZp(z, s)) = DequantStd(u, s, z)
BackAndForth == \A z \in 0..15, s \in {1, 2, 3} : ToStandardZp(ToOptimisedZp(z, s), s) = z

MCShapes2 == {<<4, 64>>, <<8, 128>>, <<12, 192>>, <<4, 128>>, <<8, 64>>}
MCShapes1 == {<<4, 8>>, <<5, 16>>, <<3, 24>>}
=============================================================================
