----------------------------- MODULE CalibScope -----------------------------
(* The scoping protocol of Calibration contexts on its own (property C13), complete for every
   history of any length with at most MaxNest contexts open at a time.  Lifecycle.tla embeds the
   same protocol in the model life-cycle but explores it to a bounded depth only; here the state
   is just the three stacks, object identities are canonical (the smallest free one), so the
   state space is finite and TLC visits all of it.

     Enter      calibrate.py __enter__ of a NEW Calibration object: push the torch-function mode,
                register one pre- and one post-forward hook, remember their handles in the object
     ReEnter    __enter__ of an object that is already open (`with c: ... with c:`)
     Exit       __exit__ of the innermost open object: pop the mode, remove the hooks the object's
                handles designate
     Raise      an exception inside a forward: every open `with` block is left, innermost first
     Reuse      __enter__ of an object that was open before and has been left completely

   ReentryLeak = TRUE is the pinned tree: one pair of handles per OBJECT (overwritten by ReEnter),
   FALSE the repaired one: one pair per ENTRY.                                                   *)
EXTENDS Integers, Sequences, FiniteSets, TLC

CONSTANTS MaxNest, ReentryLeak

VARIABLES ctx,      \* stack of open object ids
          hooks,    \* registry: sequence of [id, live]; removed entries stay as tombstones while their object is open
          modes,    \* torch-function mode stack (object ids)
          closed    \* ids of objects that were opened and completely left (they can be used again)

vars == <<ctx, hooks, modes, closed>>
Ids == 1..(MaxNest + 1)

IdsOf(s) == {s[k] : k \in 1..Len(s)}
HookIds(hs) == {hs[k].id : k \in 1..Len(hs)}
Live(hs) == SelectSeq(hs, LAMBDA h : h.live)
Count(s, x) == Cardinality({k \in 1..Len(s) : s[k] = x})
LiveCount(hs, x) == Cardinality({k \in 1..Len(hs) : hs[k].id = x /\ hs[k].live})

Init == ctx = <<>> /\ hooks = <<>> /\ modes = <<>> /\ closed = {}

Push(id) ==
  /\ ctx' = Append(ctx, id) /\ modes' = Append(modes, id)
  /\ hooks' = Append(hooks, [id |-> id, live |-> TRUE])

Enter ==
  /\ Len(ctx) < MaxNest
  /\ \E id \in Ids :
       /\ id \notin IdsOf(ctx) \cup HookIds(hooks) \cup closed
       /\ \A j \in Ids : (j < id) => j \in IdsOf(ctx) \cup HookIds(hooks) \cup closed      \* canonical: smallest free id
       /\ Push(id)
  /\ UNCHANGED closed

ReEnter == ctx # <<>> /\ Len(ctx) < MaxNest /\ Push(ctx[Len(ctx)]) /\ UNCHANGED closed

Reuse == /\ Len(ctx) < MaxNest
         /\ \E id \in closed : Push(id) /\ closed' = closed \ {id}

\* removal of the hooks designated by the handles of object `id`; `rest` = the contexts that stay open
ExitHooks(hs, id, rest) ==
  LET cand == {k \in 1..Len(hs) : hs[k].id = id /\ (ReentryLeak \/ hs[k].live)}
      k == CHOOSE k \in cand : \A j \in cand : j <= k
      marked == IF cand = {} THEN hs ELSE [hs EXCEPT ![k].live = FALSE]
  \* a tombstone only matters to handles that may still point at it (one pair per object, object still open)
  IN SelectSeq(marked, LAMBDA h : h.live \/ (ReentryLeak /\ h.id \in IdsOf(rest)))

Exit ==
  /\ ctx # <<>>
  /\ LET id == ctx[Len(ctx)] rest == SubSeq(ctx, 1, Len(ctx) - 1) IN
       /\ ctx' = rest /\ modes' = SubSeq(modes, 1, Len(modes) - 1)
       /\ hooks' = ExitHooks(hooks, id, rest)
       /\ closed' = IF id \in IdsOf(rest) THEN closed ELSE closed \cup {id}

RECURSIVE Unwind(_, _)
Unwind(cs, hs) == IF cs = <<>> THEN hs ELSE LET rest == SubSeq(cs, 1, Len(cs) - 1) IN Unwind(rest, ExitHooks(hs, cs[Len(cs)], rest))
Raise ==
  /\ ctx # <<>>
  /\ hooks' = Unwind(ctx, hooks) /\ ctx' = <<>> /\ modes' = <<>>
  /\ closed' = closed \cup IdsOf(ctx)

Next == Enter \/ ReEnter \/ Reuse \/ Exit \/ Raise
Spec == Init /\ [][Next]_vars

(* ---- properties ---- *)
\* the registries mirror the open contexts, object by object
Mirrors ==
  /\ modes = ctx
  /\ \A id \in Ids : LiveCount(hooks, id) = Count(ctx, id)
\* leaving every context restores the registries to their previous (empty) content
Scoped == (ctx = <<>>) => (hooks = <<>> /\ modes = <<>>)
\* an exit removes exactly one pair of hooks: the registry shrinks by one live entry, and the entries of the other contexts are untouched
ExitRemovesOne ==
  [][(Len(ctx') = Len(ctx) - 1) => Len(Live(hooks')) = Len(Live(hooks)) - 1]_vars
\* an exception leaves nothing behind
RaiseClears == [][(ctx # <<>> /\ ctx' = <<>> /\ Len(ctx) > 1) => hooks' = <<>>]_vars
=============================================================================
