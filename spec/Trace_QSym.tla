---------------------------- MODULE Trace_QSym ----------------------------
(* Validates executions of quantize_activation / SymmetricQuantizer.apply /
   QBytesTensor.dequantize recorded on lattice inputs (exact floating point) against the
   abstract layer of QSym.  One event = one real tensor quantized, dequantized and
   requantized; values are integers in fine units of the element's own scale.        *)
EXTENDS QSym, TLCExt, IOUtils

Tr == JsonDeserialize(IOEnv.TRACE_FILE)
VARIABLES tid, l, drift

Ev == Tr[tid][l]
Is(a) == l <= Len(Tr[tid]) /\ Ev.act = a

TInit ==
  /\ tid \in 1..Len(Tr) /\ l = 1 /\ drift = 0
  /\ mode = "trace" /\ qt = "" /\ w = "" /\ n = 0 /\ pc = "" /\ q = 0 /\ r = 0 /\ cl = 0
  /\ code = <<>> /\ dq = 0 /\ code2 = <<>> /\ shape = <<>> /\ axis = 0 /\ ks = <<>> /\ ns = <<>> /\ tcodes = <<>>

\* abstract verdict for one element: n fine units in, observed code / dequantized value /
\* code after requantization out
ElemOK(t, win, x, c, d, c2) ==
  /\ c \in F8Codes(t, win) \/ (t = "qint8" /\ c[2] \in 0..128)
  /\ {b \in Nearest(t, win, x) : SameValue(t, win, b, c)} # {}              \* NearestGridPoint
  /\ x >= TopFine(t, win) => ValFine(t, win, c) = TopFine(t, win)             \* SaturatesNotWraps
  /\ x <= BotFine(t, win) => ValFine(t, win, c) = BotFine(t, win)
  /\ d = ValFine(t, win, c)                                                   \* dequantize = scale * value(code)
  /\ SameValue(t, win, c, c2)                                                 \* RequantIdempotent

ElemDrift(t, win, x, c) == IF c = AsBuiltCode(t, win, x) \/ (ValFine(t, win, c) = 0 /\ x = 0) THEN 0 ELSE 1

RECURSIVE SumSeq(_)
SumSeq(s) == IF s = <<>> THEN 0 ELSE Head(s) + SumSeq(Tail(s))

TSym ==
  /\ Is("SymQ")
  /\ Len(Ev.codes) = Len(Ev.ns) /\ Len(Ev.dq) = Len(Ev.ns) /\ Len(Ev.codes2) = Len(Ev.ns)
  /\ (\A p \in 1..Len(Ev.ns) : ElemOK(Ev.qt, Ev.w, Ev.ns[p], Ev.codes[p], Ev.dq[p], Ev.codes2[p])) = TRUE
  /\ Ev.out_shape = Ev.shape /\ Ev.out_dtype = Ev.fmt /\ Ev.out_qtype = Ev.qt
  /\ drift' = drift + SumSeq([p \in 1..Len(Ev.ns) |-> ElemDrift(Ev.qt, Ev.w, Ev.ns[p], Ev.codes[p])])
  /\ l' = l + 1 /\ UNCHANGED <<tid, vars>>

TNext == TSym

Why(e) == <<>>
Record == TLCSet(tid, <<l, drift>>)
Post == \A t \in 1..Len(Tr) :
          LET rr == TLCGet(t) IN
            PrintT(ToJson([tid |-> t, reached |-> rr[1], len |-> Len(Tr[t]), drift |-> rr[2]]))
=============================================================================
