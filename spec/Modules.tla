------------------------------ MODULE Modules ------------------------------
(* Constructor mirroring of quantized modules (part of C08): quantize() builds the quantized
   twin of a float module by passing its hyper-parameters to the quantized class.

   As-built layer: the keyword lists of QLinear.qcreate (nn/qlinear.py:28-41),
   QConv2d.qcreate (nn/qconv2d.py:28-47), QLayerNorm.qcreate (nn/qlayernorm.py:28-48) and
   from_module (nn/qmodule.py:187-202).  Abstract layer: HyperMirrored - every attribute that
   determines the float module's function is equal on the twin; NoSpuriousFailure.
   The state is one module description; TLC enumerates the directed hyper-parameter sets and
   emits every description for instantiation on the real classes.                        *)
EXTENDS Integers, Sequences, FiniteSets, TLC, Json

CONSTANTS Dev_C08_LayerNormNoAffine   \* qcreate reads module.weight.dtype, which fails when elementwise_affine=False

VARIABLES desc, twin, aq, pc
vars == <<desc, twin, aq, pc>>

Strides == {"1", "2", "(1, 2)"}
Paddings == {"0", "1", "(1, 2)", "same", "valid"}
Dilations == {"1", "2"}
Groups == {1, 2}
PadModes == {"zeros", "reflect", "replicate", "circular"}
LinearShapes == {<<16, 8>>, <<17, 1>>, <<1, 5>>, <<160, 4>>}

Descs ==
     {[kind |-> "Linear", inf |-> s[1], outf |-> s[2], bias |-> b] : s \in LinearShapes, b \in BOOLEAN}
  \cup {[kind |-> "Conv2d", stride |-> st, padding |-> p, dilation |-> d, groups |-> g, padding_mode |-> pm, bias |-> b] :
          st \in Strides, p \in Paddings, d \in Dilations, g \in Groups, pm \in PadModes, b \in BOOLEAN}
  \cup {[kind |-> "LayerNorm", nshape |-> ns, affine |-> a, bias |-> b] : ns \in {<<16>>, <<4, 16>>}, a \in BOOLEAN, b \in BOOLEAN}

\* torch itself rejects these combinations (not quanto's business)
ValidFloat(d) ==
  CASE d.kind = "Conv2d" -> (d.padding = "same" => d.stride = "1") /\ (d.padding_mode # "zeros" => d.padding \notin {"same", "valid"} \/ TRUE)
    [] d.kind = "LayerNorm" -> (d.bias => d.affine)
    [] OTHER -> TRUE

Init == desc \in {d \in Descs : ValidFloat(d)} /\ aq \in {"none", "qint8", "qfloat8"} /\ twin = [kind |-> "none"] /\ pc = "float"

\* as built: which attributes each qcreate passes on
Mirror(d) ==
  CASE d.kind = "Linear" -> [kind |-> "QLinear", inf |-> d.inf, outf |-> d.outf, bias |-> d.bias]
    [] d.kind = "Conv2d" -> [kind |-> "QConv2d", stride |-> d.stride, padding |-> d.padding, dilation |-> d.dilation, groups |-> d.groups,
                             padding_mode |-> d.padding_mode, bias |-> d.bias]
    [] d.kind = "LayerNorm" -> [kind |-> "QLayerNorm", nshape |-> d.nshape, affine |-> d.affine, bias |-> d.bias]
QCreate ==
  /\ pc = "float"
  /\ twin' = IF desc.kind = "LayerNorm" /\ aq = "none" THEN [kind |-> "unchanged"]                   \* LayerNorm is only swapped with activations
             ELSE IF desc.kind = "LayerNorm" /\ ~desc.affine /\ Dev_C08_LayerNormNoAffine THEN [kind |-> "raise:AttributeError"]
             ELSE Mirror(desc)
  /\ pc' = "quantized" /\ UNCHANGED <<desc, aq>>
Next == QCreate

HyperMirrored ==
  (pc = "quantized" /\ twin.kind \notin {"unchanged", "raise:AttributeError"}) =>
     \A a \in (DOMAIN desc) \ {"kind"} : twin[a] = desc[a]
NoSpuriousFailure == pc = "quantized" => twin.kind # "raise:AttributeError"

Emit == pc = "quantized" => PrintT(ToJson([desc |-> desc, aq |-> aq]))
=============================================================================
