--------------------------- MODULE Trace_Config ---------------------------
(* Validates recorded calls of the public quantization entry points (one event per call)
   and instantiated quantized modules against Config.tla.  Verdict: abstract layer
   (RejectIsValueError, UnsupportedRejected, AcceptedHonoured, well-formed result,
   AutoGroupDivides); disagreement with the as-built decision is drift.              *)
EXTENDS Config, TLCExt, IOUtils

Tr == JsonDeserialize(IOEnv.TRACE_FILE)
VARIABLES tid, l, drift, dev

Ev == Tr[tid][l]
Is(a) == l <= Len(Tr[tid]) /\ Ev.act = a

TInit ==
  /\ tid \in 1..Len(Tr) /\ l = 1 /\ drift = 0 /\ dev = {}
  /\ fn = "" /\ qt = "" /\ shape = <<>> /\ axis = 0 /\ gs = 0 /\ opt = "" /\ sk = ""
  /\ outcome = [ok |-> FALSE, tag |-> "none"] /\ pc = ""

Observed(e) == IF e.outcome = "ok" THEN [ok |-> TRUE, qtype |-> e.res.qtype, axis |-> e.res.axis, gs |-> e.res.gs, scales |-> e.res.scales]
               ELSE IF e.outcome = "ValueError" THEN [ok |-> FALSE, tag |-> "VE:observed"]
               ELSE [ok |-> FALSE, tag |-> e.outcome]

WellFormedResult(e) == e.outcome = "ok" => (e.res.shape = e.shape /\ e.res.dtype = e.dtype /\ e.res.payload_numel = Prod(e.shape))

SameDecision(a, b) == IF a.ok # b.ok THEN FALSE ELSE IF a.ok THEN a = b ELSE TRUE

\* deviation of the pinned tree: a per-axis request whose scale is laid out along another axis is accepted
ScaleAxisDevSig == fn' = "SymmetricQuantizer" /\ axis' # NoAxis /\ ~ScaleMatches(shape', axis', sk') /\ outcome'.ok

TCall ==
  /\ Is("Call")
  /\ fn' = Ev.fn /\ qt' = Ev.qt /\ shape' = Ev.shape /\ axis' = Ev.axis /\ gs' = Ev.gs /\ opt' = Ev.opt /\ sk' = Ev.sk
  /\ outcome' = Observed(Ev) /\ pc' = "returned"
  /\ (RejectIsValueError' /\ AcceptedHonoured' /\ WellFormedResult(Ev)) = TRUE
  /\ \/ (UnsupportedRejected' = TRUE /\ dev' = dev)
     \/ (Dev_C14_ScaleAxis /\ (~UnsupportedRejected' /\ ScaleAxisDevSig) = TRUE /\ dev' = dev \cup {"Dev_C14_ScaleAxis"})
  /\ drift' = drift + (IF SameDecision(AsBuilt', outcome') THEN 0 ELSE 1)
  /\ l' = l + 1 /\ UNCHANGED tid

\* a quantized module instantiated for a given per-output element count
TAuto ==
  /\ Is("AutoGS")
  /\ (Ev.gs # NoGS => (Ev.in_features % Ev.gs = 0 /\ Ev.gs <= Ev.in_features)) = TRUE      \* divides
  /\ Ev.runs = TRUE                                                                            \* the module runs
  /\ drift' = drift + (IF Ev.in_features <= MaxInFeatures /\ Ev.gs # AutoGroupSize(Ev.in_features) THEN 1 ELSE 0)
  /\ l' = l + 1 /\ UNCHANGED <<tid, dev, vars>>

TNext == TCall \/ TAuto
Record == TLCSet(tid, <<l, drift, dev>>)
SetSeq(S) == LET RECURSIVE H(_) H(T) == IF T = {} THEN <<>> ELSE LET x == CHOOSE x \in T : TRUE IN <<x>> \o H(T \ {x}) IN H(S)
Post == \A t \in 1..Len(Tr) :
          LET rr == TLCGet(t) IN
            PrintT(ToJson([tid |-> t, reached |-> rr[1], len |-> Len(Tr[t]), drift |-> rr[2], dev |-> SetSeq(rr[3])]))
=============================================================================
