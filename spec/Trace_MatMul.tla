--------------------------- MODULE Trace_MatMul ---------------------------
(* Validates recorded calls of torch.nn.functional.linear / torch.matmul on quantized
   operands built from MatMul's operand families.  The exact product is computed by the
   specification (integers times powers of two); the observed output is a sequence of
   BigInts at exponent E.  Verdict: ExactOnExactDomain, accumulation bound elsewhere,
   FiniteIfRepresentable, ResultDtype, ResultShape.  The observed route is compared with
   MatMul!Route (drift only).                                                          *)
EXTENDS MatMul, Exact, TLCExt, IOUtils

Tr == JsonDeserialize(IOEnv.TRACE_FILE)
VARIABLES tid, l, drift, dev
CONSTANTS Dev_C07_F16Float8Act,    \* known finding: float16 models with float8 activations
          Dev_C07_Int8PackCrash,   \* known finding: bfloat16 x int8 route (torch._weight_int8pack_mm) when K % 16 # 0
          Dev_C07_StridedView,     \* (fixed) non-contiguous activations on the integer / int8-pack routes
          Dev_C07_IntMMK1          \* known finding: torch._int_mm with in_features = 1 and more than one output feature

Ev == Tr[tid][l]
Is(a) == l <= Len(Tr[tid]) /\ Ev.act = a
Fin(x) == x.s # 2
URel(a, k, p) == BShrCeil(BMulS(a, k), p)

\* the reference value of output element (i, j) at exponent E:  Dot * 2^(EA+EW-E) + bias * 2^(EB-E)
RefOf(c, i, j, E, withBias) ==
  LET d == SShl(SOfInt(Dot(c, i, j)), (EA + EW(c, j)) - E)
      b == IF withBias THEN SShl(SOfInt(Bias(j)), EB - E) ELSE SZero
  IN SAdd(d, b)
AbsRefOf(c, i, j, E) == BShl(BOfInt(AbsDot(c, i, j)), (EA + EW(c, j)) - E)

ElemOK(e, c, i, j) ==
  LET o == e.out[i * c.N + j + 1]
      withBias == c.bias /\ e.kind = "linear"
      ref == RefOf(c, i, j, e.E, withBias)
      p == PBits(c.dtype)
      n == c.K + 4
      absd == AbsRefOf(c, i, j, e.E)
      gamma == IF n * 2 < 2^p THEN URel(absd, 2 * n, p) ELSE absd          \* gamma_n * sum|a||w|
      tol == BAdd(BAdd(gamma, URel(SAbs(ref), 2, p)), IF withBias THEN URel(BShl(BOfInt(AbsI(Bias(j))), EB - e.E), 1, p) ELSE <<>>)
      repr == BLt(SAbs(ref), BShl(<<1>>, MaxExp(c.dtype) - 1 - e.E))            \* comfortably below the overflow threshold
  IN IF ~Fin(o) THEN ~repr                                                         \* FiniteIfRepresentable
     ELSE IF ExactElem(c, i, j) /\ repr THEN o = ref                               \* ExactOnExactDomain
     ELSE BLe(SDist(o, ref), tol)

\* rank-3 activations alternate between the batch layouts (2, r/2), (1, r) and (r, 1)
BatchShape(c) == IF c.brank = 1 THEN <<>> ELSE IF c.brank = 2 THEN <<c.rows>>
                 ELSE (IF (c.rows + c.K) % 3 = 0 THEN <<c.rows, 1>>
                       ELSE IF c.rows % 2 = 0 THEN <<2, c.rows \div 2>> ELSE <<1, c.rows>>)

CallOK(e) ==
  LET c == e.cfg IN
  /\ e.outcome = "value"
  /\ e.out_dtype = c.dtype                                                           \* ResultDtype
  /\ e.out_shape = BatchShape(c) \o <<c.N>>                                          \* ResultShape
  /\ Len(e.out) = c.rows * c.N
  /\ \A i \in 0..(c.rows - 1) : \A j \in 0..(c.N - 1) : ElemOK(e, c, i, j)

DevSig(d, e) ==
  LET c == e.cfg IN
  \* (values only: the result still has the dtype and the shape of the float result)
  CASE d = "Dev_C07_F16Float8Act" -> c.dtype = "float16" /\ IsF8(c.act) /\ e.outcome = "value"
                                     /\ e.out_dtype = c.dtype /\ e.out_shape = BatchShape(c) \o <<c.N>> /\ Len(e.out) = c.rows * c.N
    [] d = "Dev_C07_Int8PackCrash" -> c.dtype = "bfloat16" /\ c.act = "float" /\ c.wq = "qint8" /\ c.K % 4 = 0
                                      /\ (c.K % 16 # 0 \/ c.waxis = "per-tensor" \/ c.N = 1)
    [] d = "Dev_C07_StridedView" -> ~e.contiguous /\ c.brank = 3 /\ e.outcome = "RuntimeError"
                                    /\ ((c.act = "qint8" /\ c.wq = "qint8") \/ (c.dtype = "bfloat16" /\ c.act = "float" /\ c.wq = "qint8"))
    [] d = "Dev_C07_IntMMK1" -> c.act = "qint8" /\ c.wq = "qint8" /\ c.K = 1 /\ c.N > 1 /\ e.outcome = "value"
    [] OTHER -> FALSE
DevOn == (IF Dev_C07_IntMMK1 THEN {"Dev_C07_IntMMK1"} ELSE {}) \cup (IF Dev_C07_F16Float8Act THEN {"Dev_C07_F16Float8Act"} ELSE {}) \cup (IF Dev_C07_Int8PackCrash THEN {"Dev_C07_Int8PackCrash"} ELSE {})
         \cup (IF Dev_C07_StridedView THEN {"Dev_C07_StridedView"} ELSE {})

RouteDrift(e) == IF e.kind = "linear" /\ e.outcome = "value" /\ e.route_seen # "unknown" /\ e.route_seen # Route(e.cfg) THEN 1 ELSE 0

TInit == tid \in 1..Len(Tr) /\ l = 1 /\ drift = 0 /\ dev = {} /\ cfg = [none |-> TRUE] /\ route = "" /\ pc = ""
TCall ==
  /\ Is("Call")
  /\ \/ (CallOK(Ev) = TRUE /\ dev' = dev)
     \/ \E d \in DevOn : ((~CallOK(Ev) /\ DevSig(d, Ev)) = TRUE /\ dev' = dev \cup {d})
  /\ drift' = drift + RouteDrift(Ev)
  /\ l' = l + 1 /\ UNCHANGED <<tid, vars>>
TNext == TCall
Record == TLCSet(tid, <<l, drift, dev>>)
SetSeq(S) == LET RECURSIVE H(_) H(T) == IF T = {} THEN <<>> ELSE LET x == CHOOSE x \in T : TRUE IN <<x>> \o H(T \ {x}) IN H(S)
Post == \A t \in 1..Len(Tr) :
          LET rr == TLCGet(t) IN
            PrintT(ToJson([tid |-> t, reached |-> rr[1], len |-> Len(Tr[t]), drift |-> rr[2], dev |-> SetSeq(rr[3])]))
=============================================================================
