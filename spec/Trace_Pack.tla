---------------------------- MODULE Trace_Pack ----------------------------
(* Trace validation for Pack: scenarios recorded from the real PackedTensor /
   torch.ops.quanto*.unpack are replayed through Pack's variables.  A step is taken
   only if the *abstract* properties (Dense, RoundTrip, KernelsAgree, OpsActOnUnpacked)
   hold in the successor state; disagreement with the as-built layout only counts as
   drift.  One TLC run validates many scenarios (one initial state per scenario).   *)
EXTENDS Pack, TLCExt, Json, IOUtils, SequencesExt

Tr == JsonDeserialize(IOEnv.TRACE_FILE)

VARIABLES tid, l, drift
tvars == <<vars, tid, l, drift>>

Ev == Tr[tid][l]
Is(a) == l <= Len(Tr[tid]) /\ Ev.act = a
Step == l' = l + 1 /\ UNCHANGED tid

TInit ==
  /\ tid \in 1..Len(Tr) /\ l = 1 /\ drift = 0
  /\ bits = 0 /\ rows = 0 /\ trail = 0 /\ coding = <<>> /\ v = <<>>
  /\ payload = <<>> /\ upy = <<>> /\ ucpp = <<>> /\ pc = "none"

\* scenario start: a value tensor to pack
TStart ==
  /\ Is("Start") /\ Step
  /\ bits' = Ev.bits /\ rows' = Ev.rows /\ trail' = Ev.trail /\ v' = Ev.v
  /\ \A k \in 1..Len(Ev.v) : Ev.v[k] \in 0..(2^Ev.bits - 1)
  /\ Len(Ev.v) = Ev.rows * Ev.trail
  /\ payload' = <<>> /\ upy' = <<>> /\ ucpp' = <<>> /\ pc' = "fresh" /\ drift' = 0
  /\ UNCHANGED coding

\* PackedTensor.pack(t): logged payload shape and bytes
TPack ==
  /\ Is("Pack") /\ pc = "fresh" /\ Step
  /\ payload' = Ev.payload /\ pc' = "packed"
  /\ Ev.prow = DenseRows(rows, bits)                \* Dense
  /\ Len(Ev.payload) = Ev.prow * trail
  /\ \A k \in 1..Len(Ev.payload) : Ev.payload[k] \in 0..255
  /\ drift' = drift + (IF Ev.payload = PackWeights(v, rows, trail, bits) THEN 0 ELSE 1)
  /\ UNCHANGED <<bits, rows, trail, coding, v, upy, ucpp>>

\* scenario start from raw bytes (kernels on arbitrary byte tensors)
TStartBytes ==
  /\ Is("StartBytes") /\ Step
  /\ bits' = Ev.bits /\ rows' = Ev.prow * Vpi(Ev.bits) /\ trail' = Ev.trail
  /\ payload' = Ev.payload /\ v' = <<>> /\ upy' = <<>> /\ ucpp' = <<>> /\ pc' = "bytes" /\ drift' = 0
  /\ UNCHANGED coding

\* one unpack route: full kernel output (before the slice) or sliced PackedTensor.unpack()
TUnpack ==
  /\ Is("Unpack") /\ pc \in {"packed", "py", "bytes", "bytes2"} /\ Step
  /\ LET out == Ev.out
         prow == Len(payload) \div trail
     IN /\ Len(out) = Vpi(bits) * prow * trail
        /\ \A k \in 1..Len(out) : out[k] \in 0..(2^bits - 1)
        /\ pc \in {"packed", "py"} => Slice(out, rows, trail) = v           \* RoundTrip
        /\ upy # <<>> => out = upy                                            \* KernelsAgree
        /\ upy' = out
        /\ drift' = drift + (IF out = UnpackRef(payload, prow, trail, bits)
                                /\ out = UnpackCpp(payload, prow, trail, bits) THEN 0 ELSE 1)
  /\ pc' = (IF pc \in {"packed", "py"} THEN "py" ELSE "bytes2")
  /\ UNCHANGED <<bits, rows, trail, coding, v, payload, ucpp>>

\* PackedTensor.unpack(): the sliced result must be the original tensor
TUnpackT ==
  /\ Is("UnpackT") /\ pc \in {"packed", "py"} /\ Step
  /\ Ev.out = v
  /\ UNCHANGED <<vars, drift>>

\* an operation applied to the packed tensor and to its unpacked twin
TOp ==
  /\ Is("Op") /\ pc \in {"packed", "py"} /\ Step
  /\ (LET d == Dispatch(Ev.kind) IN
       \/ d = "on_unpacked" /\ Ev.outcome = "value" /\ Ev.on_packed = Ev.on_unpacked
       \/ d = "packed" /\ Ev.outcome = "packed" /\ Ev.on_packed = Ev.on_unpacked
       \/ d = "ValueError" /\ Ev.outcome = "ValueError") = TRUE
  /\ UNCHANGED <<vars, drift>>

TNext == TStart \/ TPack \/ TStartBytes \/ TUnpack \/ TUnpackT \/ TOp

Record == TLCSet(tid, <<l, drift>>)

Post == \A t \in 1..Len(Tr) :
          LET r == TLCGet(t) IN
            PrintT(ToJson([tid |-> t, reached |-> r[1], len |-> Len(Tr[t]), drift |-> r[2]]))
=============================================================================
