------------------------- MODULE Trace_Lifecycle -------------------------
(* Validates executed life-cycle histories (one trace per history, one event per action of
   Lifecycle.tla) against the abstract properties of C08 - C13.  `Judge` selects which
   property's clauses give the verdict; the structural bookkeeping (open contexts, number
   of calibration updates per module, what was saved) is tracked in trace variables.     *)
EXTENDS Integers, Sequences, FiniteSets, TLC, TLCExt, Json, IOUtils, Exact

Tr == JsonDeserialize(IOEnv.TRACE_FILE)

CONSTANTS Judge, Dev_C13_ReentryLeak,
          Dev_C12_InputMomentum, Dev_C12_ScaleOne, Dev_C10_GroupSizeLost, Dev_C10_LayerNormTarget, Dev_C10_ScaleDtype,
          Dev_C09_DeepCopyQBits, Dev_C08_ScaleDtype, Dev_C05_CopyPlain, Dev_C07_F16Float8Act, Dev_C08_LayerNormNoAffine, Dev_C07_IntMMK1

VARIABLES tid, l, dev,
          open,      \* number of calibration contexts currently open
          base,      \* globals at Init (registries / mode stack before the history)
          upd,       \* per module index: <<number of input-scale updates, number of output-scale updates>>
          qargs      \* [ms |-> stack of the momenta of the open contexts, re |-> number of open re-entries of an already open object]

Ev == Tr[tid][l]
Is(a) == l <= Len(Tr[tid]) /\ Ev.act = a
PBits(fmt) == IF fmt = "float32" THEN 24 ELSE IF fmt = "float16" THEN 11 ELSE 8
URel(a, k, p) == BShrCeil(BMulS(a, k), p)
MinI2(a, b) == IF a < b THEN a ELSE b
CeilDiv(a, b) == (a + b - 1) \div b

(* exact scalars logged as [s, m, e]: value = s * m * 2^e *)
FinS(x) == x.s # 2
ValAt(x, E) == SShl([s |-> x.s, m |-> x.m], x.e - E)
SameS(x, y) == (x.s = y.s /\ x.m = y.m /\ (x.e = y.e \/ x.s = 0))
IsOne(x) == x.s = 1 /\ x.m = <<1>> /\ x.e = 0

Selected(f, i, n) == f = "all" \/ (f = "first" /\ i = 1) \/ (f = "last" /\ i = n)
Quantizable(kind, aq) == kind \in {"Linear", "Conv2d"} \/ (kind = "LayerNorm" /\ aq # "none")
QClass(kind) == IF kind = "Linear" THEN "QLinear" ELSE IF kind = "Conv2d" THEN "QConv2d" ELSE "QLayerNorm"

(* ======================== C13: scoping and purity (checked on every event) ======================== *)
\* Stated without reference to HOW a context hooks itself in (one pre- and one post-hook per entry as built - that count is the
\* as-built layer and not a verdict): entering may change the registries at will; leaving restores what the matching enter
\* found (qargs.snaps: stack of the registries seen just before each enter); an exception restores what the outermost enter
\* found; no other action changes them.
PrevGlobals == Tr[tid][l - 1].globals
GlobalsOK(e) ==
  CASE e.act \in {"EnterCalib", "ReEnterCalib"} -> TRUE
    [] e.act = "ExitCalib" /\ e.outcome = "ok" -> (qargs.snaps # <<>>) /\ e.globals = qargs.snaps[Len(qargs.snaps)]
    [] e.act = "RaiseIn" -> (qargs.snaps # <<>>) => e.globals = qargs.snaps[1]
    [] OTHER -> e.globals = PrevGlobals
ForwardPure(e) ==
  /\ e.state_before = e.state_digest              \* no parameter, buffer, scale or qtype changed
  /\ e.input_unchanged
  /\ e.out.digest = e.out_again.digest            \* repeated evaluation is bit-identical
C13OK(e) ==
  /\ GlobalsOK(e)
  /\ (e.act = "Forward" /\ e.outcome = "ok") => ForwardPure(e)
  /\ (e.act = "Quantize" /\ e.outcome = "ok") => \A k \in 1..Len(e.preserved) : e.preserved[k].weight_same /\ e.preserved[k].bias_same
  /\ (e.act = "RaiseIn") => e.raised = TRUE
  /\ (e.act = "LibCall") => (e.outcome = "ok" /\ e.inputs_unchanged /\ e.state_before = e.state_digest)   \* LibraryCallsPure
  /\ (e.act = "ForeignBatch") => (e.outcome = "ok" /\ e.ours_unchanged)
  /\ (e.act = "Freeze" /\ e.outcome = "ok") => e.float_weights_unchanged           \* freeze() never writes the float tensors it reads

(* ======================== C08: quantize() and the forward recipe ================================== *)
HyperSame(a, b) == a.hyper = b.hyper /\ a.has_bias = b.has_bias /\ a.dtype = b.dtype /\ a.device = b.device /\ a.name = b.name
QuantizeOK(e) ==
  LET n == Len(e.mods) IN
  /\ e.outcome = "ok" /\ e.names_same /\ Len(e.float_mods) = n
  /\ \A i \in 1..n :
       LET m == e.mods[i] f == e.float_mods[i]
           want == Selected(e.args.filter, i, n) /\ Quantizable(f.kind, e.args.aq)
       IN /\ m.q = want                                                        \* SwapExactlyEligible
          /\ HyperSame(m, f)                                                   \* hyper-parameters, dtype, device, name
          /\ e.preserved[i].weight_same /\ e.preserved[i].bias_same            \* ParamsPreserved (bit-identical)
          /\ want => (m.cls = QClass(f.kind) /\ m.aq = e.args.aq /\ ~m.frozen
                      /\ m.wq = (IF f.kind = "LayerNorm" THEN "none" ELSE e.args.wq))
          /\ ~want => (m.cls = f.cls /\ e.preserved[i].same_object)           \* OthersUntouched

\* one module's output against its float twin (dequantized weight, (de)quantized input)
RecipeElemOK(r, k) ==
  LET p == PBits(r.out_dtype)
      acc == URel(r.absref[k].m, 2 * (r.K + 4), p)                  \* accumulation-order slack (C07 judges it in detail)
      d == SDist(r.out[k], r.ref[k])
      mb == IF r.out_qtype = "qfloat8_e5m2" THEN 2 ELSE 3
      step == IF r.out_kind # "QBytes" THEN <<>>
              ELSE IF r.out_qtype = "qint8" THEN SAbs(r.outscale)
              ELSE BMax(BShrCeil(SAbs(r.ref[k]), mb), SAbs(r.outscale))
  IN r.out[k].s # 2 /\ r.ref[k].s # 2 /\ BLe(d, BAdd(BAdd(acc, step), URel(SAbs(r.ref[k]), 4, p)))
RecipeOK(r) ==
  /\ r.shape_ok
  /\ r.out_dtype = r.ref_dtype                                       \* the module computes in its own dtype
  /\ (r.aq # "none") <=> (r.out_kind = "QBytes")                      \* re-quantized iff activations are quantized
  /\ r.out_kind = "QBytes" => r.out_qtype = r.aq
  /\ \A k \in 1..Len(r.ref) : RecipeElemOK(r, k)
ForwardRecipesOK(e) == e.outcome = "ok" /\ \A k \in 1..Len(e.recipes) : RecipeOK(e.recipes[k])
\* deviation: scale buffers are float32 whatever the dtype of the model, so that before calibration a
\* half-precision model with quantized activations computes (and returns) float32
RecipeDtypeDev(r) ==
  /\ r.aq # "none" /\ r.ref_dtype \in {"float16", "bfloat16"} /\ r.out_dtype = "float32" /\ r.shape_ok

C08OK(e) ==
  /\ e.act = "Quantize" => QuantizeOK(e)
  /\ e.act = "Forward" => ForwardRecipesOK(e)

(* ======================== C09: freeze ================================================================ *)
SameOutputs(a, b) == Len(a) = Len(b) /\ \A k \in 1..Len(a) : a[k].digest = b[k].digest /\ a[k].kind = b[k].kind /\ a[k].dtype = b[k].dtype
\* the width the REQUESTED qtype stands for (not what the implementation's qtype object says about itself)
BitsOfQ(q) == IF q = "qint2" THEN 2 ELSE IF q = "qint4" THEN 4 ELSE 8
PayloadOK(m) ==
  LET p == m.payload IN
  (m.q /\ m.wq # "none") =>
    /\ m.frozen /\ p.cls # "float" /\ p.qtype = m.wq /\ p.gs = m.gs
    /\ p.bits = BitsOfQ(m.wq)
    /\ p.payload_rows = CeilDiv(p.grouped_rows * BitsOfQ(m.wq), 8)             \* ceil(rows x bits / 8) ...
    /\ p.payload_bytes = p.payload_rows * (p.grouped_numel \div p.grouped_rows)  \* ... x (numel / rows) bytes
    /\ p.scale_count = (IF p.gs = 0 THEN p.shape[1] ELSE p.grouped_numel \div p.gs)
    /\ (p.bits < 8 => p.zp_count = p.scale_count)
    /\ p.dtype = m.dtype /\ p.scale_dtype = m.dtype
Untouched(a, b) == /\ a.bias_digest = b.bias_digest /\ SameS(a.insc, b.insc) /\ SameS(a.outsc, b.outsc) /\ a.aq = b.aq /\ a.wq = b.wq /\ a.cls = b.cls
                   /\ (~a.q \/ a.wq = "none" \/ a.frozen) => a.weight_digest = b.weight_digest     \* weights that freeze() has no business with
FreezeOK(e) ==
  /\ e.outcome = "ok"
  /\ SameOutputs(e.out_before, e.out_after)                                  \* bit-identical outputs
  /\ \A i \in 1..Len(e.mods) : Untouched(e.mods_before[i], e.mods[i]) /\ PayloadOK(e.mods[i])
  /\ (\A i \in 1..Len(e.mods) : e.mods_before[i].frozen \/ ~e.mods_before[i].q \/ e.mods_before[i].wq = "none")
        => e.mods = e.mods_before                                             \* FreezeIdempotent
CopyOK(e) == e.outcome = "ok" /\ SameOutputs(e.out_before, e.out_after)
\* model.to(device): same outputs, and nothing the model holds changed (weights stay packed, scales, qtypes, frozen flags, devices)
MoveOK(e) == CopyOK(e) /\ e.mods = e.mods_before
C09OK(e) ==
  /\ e.act = "Freeze" => FreezeOK(e)
  /\ e.act = "DeepCopy" => CopyOK(e)
  /\ e.act = "ToDevice" => MoveOK(e)
DeepCopyDevSig(e) == e.act = "DeepCopy" /\ e.outcome = "RuntimeError"
                     /\ \E i \in 1..Len(e.mods) : e.mods[i].frozen /\ e.mods[i].wq \in {"qint4", "qint2"}

(* ======================== C10: state_dict round trips ================================================= *)
RECURSIVE AllPlain(_, _)
AllPlain(sd, ks) == IF ks = {} THEN TRUE
                    ELSE LET k == CHOOSE k \in ks : TRUE IN
                         (SubSeq(sd[k], 1, 4) = "str:" \/ SubSeq(sd[k], 1, 7) = "tensor:") /\ AllPlain(sd, ks \ {k})
SaveOK(e) == e.outcome = "ok" /\ AllPlain(e.sd_before, DOMAIN e.sd_before) /\ e.sd_same
SameModule(a, b) ==
  /\ a.cls = b.cls /\ a.wq = b.wq /\ a.aq = b.aq /\ a.frozen = b.frozen /\ a.gs = b.gs
  /\ a.weight_digest = b.weight_digest /\ a.bias_digest = b.bias_digest      \* codes, scales, zero-points (or float weights)
  /\ SameS(a.insc, b.insc) /\ SameS(a.outsc, b.outsc)
  /\ a.device = b.device
LoadOK(e) ==
  /\ e.outcome = "ok"
  /\ Len(e.mods) = Len(e.mods_saved) /\ \A i \in 1..Len(e.mods) : SameModule(e.mods_saved[i], e.mods[i])
  /\ SameOutputs(e.out_saved, e.out_loaded)                                   \* bit-identical outputs
  /\ e.sd_resaved = e.sd_loaded_from                                          \* saving again gives an equal state_dict
C10OK(e) ==
  /\ e.act = "Save" => SaveOK(e)
  /\ e.act = "Load" => LoadOK(e)
C10DevSig(d, e) ==
  CASE d = "Dev_C10_GroupSizeLost" ->
         e.act = "Load" /\ e.outcome = "ok" /\ e.args.target \in {"default", "requantize"}
         /\ \E i \in 1..Len(e.mods) : ~e.mods_saved[i].frozen /\ e.mods_saved[i].gs # 0 /\ e.mods[i].gs = 0
    [] d = "Dev_C10_LayerNormTarget" ->
         e.act = "Load" /\ e.outcome = "RuntimeError" /\ e.args.target \in {"default", "requantize"}
         /\ \E i \in 1..Len(e.mods) : e.mods[i].kind = "LayerNorm" /\ e.mods[i].q
    [] d = "Dev_C10_ScaleDtype" ->
         e.act = "Load" /\ e.outcome = "ok"
         /\ \E i \in 1..Len(e.mods) : e.mods_saved[i].q /\ e.mods_saved[i].insc.dtype # e.mods[i].insc.dtype
    [] OTHER -> FALSE

(* ======================== C11: gradients reach the right leaves ========================================== *)
GradsOK(e) ==
  e.outcome = "ok" /\
  \A k \in 1..Len(e.grads) :
     LET g == e.grads[k] IN
       /\ g.frozen => ~g.has_grad                                    \* frozen weights receive no gradient
       /\ (g.param \in {"input_scale", "output_scale"}) => ~g.has_grad   \* scales receive no gradient
       /\ (~g.frozen /\ g.requires_grad /\ g.param \in {"weight", "bias"}) => g.has_grad
C11OK(e) ==
  /\ e.act = "OptStep" => GradsOK(e)
  /\ e.act = "Forward" => ForwardRecipesOK(e)                         \* every forward uses the current weights

\* straight-through gradients of one module against its float twin (same upstream gradient)
GradVecOK(g, n, fmt) ==
  g.missing \/ (/\ g.shape_ok /\ g.dtype_ok
                 /\ \A k \in 1..Len(g.got) :
                      /\ g.got[k].s # 2 /\ g.ref[k].s # 2
                      /\ BLe(SDist(g.got[k], g.ref[k]),
                             BAdd(BAdd(IF 4 * (n + 4) < 2^PBits(fmt) THEN URel(g.absref[k].m, 2 * (n + 4), PBits(fmt)) ELSE g.absref[k].m,
                                       URel(SAbs(g.ref[k]), 4, PBits(fmt))), <<1>>)))
GradOK(e) ==
  LET c == e.case IN
  /\ e.outcome = "ok"
  /\ e.x_has_grad /\ ~e.scale_has_grad
  /\ (c.frozen => ~e.w_has_grad) /\ (~c.frozen => e.w_has_grad /\ ~e.gw.missing)
  /\ (c.bias => e.b_has_grad)
  /\ GradVecOK(e.gx, e.terms, c.dtype) /\ (~c.frozen => GradVecOK(e.gw, e.terms, c.dtype)) /\ (c.bias => GradVecOK(e.gb, e.terms, c.dtype))

(* ======================== C12: calibration scales ========================================================== *)
\* |after - (m*before + (1-m)*new)| <= 6u max(before, new) + 2 eta   with m = mm / 2^30
\* (eta, the smallest subnormal: scales of float16 models reach the subnormal range, where each of the two products and the
\*  sum is rounded with an ABSOLUTE error of eta/2 - found with seed 3: 0.5*161eta + 0.5*161eta = 160eta)
EtaExpL(fmt) == IF fmt = "float32" THEN -149 ELSE IF fmt = "float16" THEN -24 ELSE -133
EmaOK(before, new, after, mm, fmt) ==
  LET E == MinI2(MinI2(before.e, new.e), after.e)
      b == ValAt(before, E) n == ValAt(new, E) a == ValAt(after, E)
      want == SAdd(SMk(b.s, BMul(b.m, BOfInt(mm))), SMk(n.s, BMul(n.m, BOfInt(1073741824 - mm))))
      got == SShl(a, 30)
      mx == BShl(BMax(b.m, n.m), 30)
      eta2 == IF EtaExpL(fmt) - E + 31 <= 0 THEN <<1>> ELSE BShl(<<1>>, EtaExpL(fmt) - E + 31)       \* 2 eta at the scale of `got`
  IN BLe(SDist(got, want), BAdd(BAdd(URel(mx, 6, PBits(fmt)), BShrCeil(mx, 26)), eta2))
NearS(x, y, fmt) == LET E == MinI2(x.e, y.e) a == ValAt(x, E) b == ValAt(y, E) IN BLe(SDist(a, b), URel(BMax(a.m, b.m), 2, PBits(fmt)))
MomInt(mo) == IF mo = "m50" THEN 536870912 ELSE IF mo = "m25" THEN 268435456 ELSE IF mo = "m0" THEN 0 ELSE 966367642   \* round(m * 2^30)
ModuleIndex(e, name) == CHOOSE i \in 1..Len(e.mods) : e.mods[i].name = name
\* the law for one observed update (only while exactly one context is open)
ScaleLaw(before, new, after, count, mm, fmt) ==
  FinS(before) /\ FinS(new) /\ FinS(after) /\
  (IF count = 0 THEN NearS(after, new, fmt) ELSE EmaOK(before, new, after, mm, fmt))
CalibRecOK(e, r, mm) ==
  LET i == ModuleIndex(e, r.name) fmt == e.mods[i].dtype IN
  (r.aq # "none") =>
    /\ ("adopt" \in DOMAIN r) => SameS(r.insc_after, r.adopt) \/ NearS(r.insc_after, r.adopt, fmt)      \* AdoptQuantizedInputScale
    /\ ("in_new" \in DOMAIN r) => ScaleLaw(r.insc_before, r.in_new, r.insc_after, upd[i][1], mm, fmt)
    /\ ("out_new" \in DOMAIN r) => ScaleLaw(r.outsc_before, r.out_new, r.outsc_after, upd[i][2], mm, fmt)
    /\ (("out_new" \in DOMAIN r) /\ upd[i][2] = 0) => ~r.out_saturates                                   \* NoSaturationAfterOneBatch
CalibOK(e) ==
  /\ e.outcome = "ok"
  /\ (e.n_ctx = 1 /\ Len(qargs.ms) = 1) => \A k \in 1..Len(e.calib) : CalibRecOK(e, e.calib[k], MomInt(qargs.ms[1]))
C12OK(e) == /\ e.act = "CalibBatch" => CalibOK(e)
            /\ e.act = "ForeignBatch" => (e.outcome = "ok" /\ e.ours_unchanged)      \* another model's batches do not touch our scales
\* deviations of the pinned tree
InputMomentumSig(e) ==
  e.act = "CalibBatch" /\ e.outcome = "ok" /\ e.n_ctx = 1 /\ Len(qargs.ms) = 1 /\
  \A k \in 1..Len(e.calib) :
     LET r == e.calib[k] i == ModuleIndex(e, r.name) fmt == e.mods[i].dtype IN
     (r.aq # "none") =>
       /\ ("in_new" \in DOMAIN r) => ScaleLaw(r.insc_before, r.in_new, r.insc_after, upd[i][1], 966367642, fmt)
       /\ ("out_new" \in DOMAIN r) => ScaleLaw(r.outsc_before, r.out_new, r.outsc_after, upd[i][2], MomInt(qargs.ms[1]), fmt)
\* the recorded deviation and nothing else: a scale that is exactly 1.0 AFTER EARLIER UPDATES is re-initialised by the next batch
\* (after = new) instead of averaged; every other update of the same step obeys the law
ReinitIn(r, i) == ("in_new" \in DOMAIN r) /\ IsOne(r.insc_before) /\ upd[i][1] > 0
ReinitOut(r, i) == ("out_new" \in DOMAIN r) /\ IsOne(r.outsc_before) /\ upd[i][2] > 0
RecOKWithReinit(e, r, mm) ==
  LET i == ModuleIndex(e, r.name) fmt == e.mods[i].dtype IN
  (r.aq # "none") =>
    /\ ("adopt" \in DOMAIN r) => SameS(r.insc_after, r.adopt) \/ NearS(r.insc_after, r.adopt, fmt)
    /\ ("in_new" \in DOMAIN r) => IF ReinitIn(r, i) THEN FinS(r.in_new) /\ FinS(r.insc_after) /\ NearS(r.insc_after, r.in_new, fmt)
                                   ELSE ScaleLaw(r.insc_before, r.in_new, r.insc_after, upd[i][1], mm, fmt)
    /\ ("out_new" \in DOMAIN r) => IF ReinitOut(r, i) THEN FinS(r.out_new) /\ FinS(r.outsc_after) /\ NearS(r.outsc_after, r.out_new, fmt)
                                    ELSE ScaleLaw(r.outsc_before, r.out_new, r.outsc_after, upd[i][2], mm, fmt)
    /\ (("out_new" \in DOMAIN r) /\ upd[i][2] = 0) => ~r.out_saturates
ScaleOneSig(e) ==
  /\ e.act = "CalibBatch" /\ e.outcome = "ok" /\ e.n_ctx = 1 /\ Len(qargs.ms) = 1
  /\ \E k \in 1..Len(e.calib) : LET r == e.calib[k] IN r.aq # "none" /\ (ReinitIn(r, ModuleIndex(e, r.name)) \/ ReinitOut(r, ModuleIndex(e, r.name)))
  /\ \A k \in 1..Len(e.calib) : RecOKWithReinit(e, e.calib[k], MomInt(qargs.ms[1]))

(* ======================== bookkeeping =========================================================================== *)
OpenAfter(e) ==
  CASE e.act \in {"EnterCalib", "ReEnterCalib"} /\ e.outcome = "ok" -> open + 1
    [] e.act = "ExitCalib" /\ e.outcome = "ok" -> open - 1
    [] e.act = "RaiseIn" -> 0
    [] OTHER -> open
UpdAfter(e) ==
  IF e.act \in {"CalibBatch", "RaiseIn"} /\ "calib" \in DOMAIN e
  THEN [i \in DOMAIN upd |->
          \* the input scale is updated by the global pre-hook (even if the module's forward then raises),
          \* the output scale by the global post-hook
          LET ri == {k \in 1..Len(e.calib) : e.calib[k].name = e.mods[i].name /\ e.calib[k].aq # "none"}
              ro == {k \in ri : "outsc_after" \in DOMAIN e.calib[k]} IN
          <<upd[i][1] + Cardinality(ri) * e.n_ctx, upd[i][2] + Cardinality(ro) * e.n_ctx>>]
  ELSE IF e.act = "Quantize" THEN [i \in 1..Len(e.mods) |-> <<0, 0>>]
  ELSE upd

JudgeOK(e) ==
  CASE Judge = "C08" -> C08OK(e) [] Judge = "C09" -> C09OK(e) [] Judge = "C10" -> C10OK(e)
    [] Judge = "C11" -> C11OK(e) [] Judge = "C12" -> C12OK(e) [] Judge = "C13" -> C13OK(e)

DevSig(d, e) ==
  CASE d = "Dev_C12_InputMomentum" -> Judge = "C12" /\ InputMomentumSig(e)
    [] d = "Dev_C12_ScaleOne" -> Judge = "C12" /\ ScaleOneSig(e)
    [] d = "Dev_C07_F16Float8Act" ->
         \* float16 model with float8 activations AND a non-finite number actually observed in this step
         /\ Tr[tid][1].dtype = "float16"
         \* (a streamlining context clears activation qtypes at the end of the batch: the records carry the qtype the batch ran with)
         /\ \/ \E i \in 1..Len(e.mods) : e.mods[i].q /\ e.mods[i].aq \in {"qfloat8", "qfloat8_e4m3fn", "qfloat8_e5m2"}
            \/ (e.act = "CalibBatch" /\ \E k \in 1..Len(e.calib) : e.calib[k].aq \in {"qfloat8", "qfloat8_e4m3fn", "qfloat8_e5m2"})
         /\ \/ (e.act = "CalibBatch" /\ \E k \in 1..Len(e.calib) :
                   \/ ("out_new" \in DOMAIN e.calib[k] /\ e.calib[k].out_new.s = 2)
                   \/ ("in_new" \in DOMAIN e.calib[k] /\ e.calib[k].in_new.s = 2)
                   \/ ("outsc_before" \in DOMAIN e.calib[k] /\ e.calib[k].outsc_before.s = 2)
                   \/ ("insc_before" \in DOMAIN e.calib[k] /\ e.calib[k].insc_before.s = 2))
            \/ (e.act = "Forward" /\ e.outcome = "ok"
                \* (values only: every module still returns the shape, dtype and kind of tensor the recipe prescribes)
                /\ (\A k \in 1..Len(e.recipes) : LET r == e.recipes[k] IN
                       r.shape_ok /\ r.out_dtype = r.ref_dtype /\ ((r.aq # "none") <=> (r.out_kind = "QBytes")) /\ (r.out_kind = "QBytes" => r.out_qtype = r.aq))
                /\ (~e.out.finite \/ \E k \in 1..Len(e.recipes) : \E j \in 1..Len(e.recipes[k].out) :
                    \/ e.recipes[k].out[j].s = 2 \/ e.recipes[k].ref[j].s = 2
                    \* an infinite intermediate re-quantized with the output scale lands exactly on the end of the float8 grid
                    \/ (e.recipes[k].out_kind = "QBytes" /\ e.recipes[k].out_qtype \in {"qfloat8", "qfloat8_e4m3fn", "qfloat8_e5m2"}
                        /\ SAbs(e.recipes[k].out[j]) = BMul(SAbs(e.recipes[k].outscale), BOfInt(IF e.recipes[k].out_qtype = "qfloat8_e5m2" THEN 57344 ELSE 448)))))
            \/ (e.act \in {"Freeze", "DeepCopy", "ToDevice"} /\ e.outcome = "ok" /\ \E k \in 1..Len(e.out_before) : ~e.out_before[k].finite)
            \/ (e.act = "Load" /\ e.outcome = "ok" /\ \E k \in 1..Len(e.out_saved) : ~e.out_saved[k].finite)
    [] d = "Dev_C09_DeepCopyQBits" -> Judge = "C09" /\ DeepCopyDevSig(e)
    [] d \in {"Dev_C10_GroupSizeLost", "Dev_C10_LayerNormTarget", "Dev_C10_ScaleDtype"} -> Judge = "C10" /\ C10DevSig(d, e)
    [] d = "Dev_C08_ScaleDtype" -> Judge \in {"C08", "C11"} /\ e.act = "Forward" /\ e.outcome = "ok"
                                   /\ \A k \in 1..Len(e.recipes) : RecipeOK(e.recipes[k]) \/ RecipeDtypeDev(e.recipes[k])
    [] d = "Dev_C13_ReentryLeak" ->
         \* an object that was entered twice is being left, and hooks outlive it (mode stack and purity clauses still hold)
         /\ Judge = "C13" /\ e.act \in {"ExitCalib", "RaiseIn"} /\ qargs.re > 0
         /\ qargs.snaps # <<>>
         /\ LET want == IF e.act = "RaiseIn" THEN qargs.snaps[1] ELSE qargs.snaps[Len(qargs.snaps)] IN
              e.globals.modes = want.modes /\ e.globals.pre_hooks > want.pre_hooks /\ e.globals.post_hooks > want.post_hooks
         /\ (e.act = "RaiseIn") => e.raised = TRUE
    [] d = "Dev_C07_IntMMK1" ->
         /\ e.act = "Forward" /\ e.outcome = "ok"
         /\ \A k \in 1..Len(e.recipes) : RecipeOK(e.recipes[k]) \/ (e.recipes[k].kind = "Linear" /\ e.recipes[k].K = 1 /\ e.recipes[k].wq = "qint8" /\ e.recipes[k].aq = "qint8" /\ e.recipes[k].shape_ok)
    [] d = "Dev_C08_LayerNormNoAffine" ->
         /\ e.act = "Quantize" /\ e.outcome = "AttributeError" /\ e.args.aq # "none"
         /\ \E i \in 1..Len(e.mods) : e.mods[i].kind = "LayerNorm" /\ e.mods[i].hyper.elementwise_affine = "False"
    [] d = "Dev_C05_CopyPlain" -> Judge \in {"C08", "C11", "C09", "C13"} /\ e.act \in {"Forward", "Freeze", "DeepCopy", "OptStep", "CalibBatch"}
                                  /\ e.outcome \in {"AttributeError", "AssertionError"}
                                  /\ \E i \in 1..Len(e.mods) : e.mods[i].kind = "Conv2d" /\ e.mods[i].hyper.padding_mode = "circular" /\ e.mods[i].aq # "none"
    [] OTHER -> FALSE
DevOn == {d \in {"Dev_C13_ReentryLeak", "Dev_C07_IntMMK1", "Dev_C08_LayerNormNoAffine", "Dev_C07_F16Float8Act", "Dev_C12_InputMomentum", "Dev_C12_ScaleOne", "Dev_C10_GroupSizeLost", "Dev_C10_LayerNormTarget", "Dev_C10_ScaleDtype",
                 "Dev_C09_DeepCopyQBits", "Dev_C08_ScaleDtype", "Dev_C05_CopyPlain"} :
            CASE d = "Dev_C12_InputMomentum" -> Dev_C12_InputMomentum [] d = "Dev_C12_ScaleOne" -> Dev_C12_ScaleOne
              [] d = "Dev_C13_ReentryLeak" -> Dev_C13_ReentryLeak
              [] d = "Dev_C07_F16Float8Act" -> Dev_C07_F16Float8Act
              [] d = "Dev_C07_IntMMK1" -> Dev_C07_IntMMK1
              [] d = "Dev_C08_LayerNormNoAffine" -> Dev_C08_LayerNormNoAffine
              [] d = "Dev_C10_GroupSizeLost" -> Dev_C10_GroupSizeLost [] d = "Dev_C10_LayerNormTarget" -> Dev_C10_LayerNormTarget
              [] d = "Dev_C10_ScaleDtype" -> Dev_C10_ScaleDtype [] d = "Dev_C09_DeepCopyQBits" -> Dev_C09_DeepCopyQBits
              [] d = "Dev_C08_ScaleDtype" -> Dev_C08_ScaleDtype [] d = "Dev_C05_CopyPlain" -> Dev_C05_CopyPlain}

TInit == /\ tid \in 1..Len(Tr) /\ l = 1 /\ dev = {} /\ open = 0
         /\ base = [pre_hooks |-> 0, post_hooks |-> 0, modes |-> 0] /\ upd = <<>> /\ qargs = [ms |-> <<>>, re |-> 0, snaps |-> <<>>]

TStart == /\ Is("Init") /\ l' = l + 1
          /\ base' = Ev.globals /\ upd' = [i \in 1..Len(Ev.mods) |-> <<0, 0>>]
          /\ UNCHANGED <<tid, dev, open, qargs>>

\* a history that could not be executed in the harness at all (crash of the worker process)
TCrash == /\ Is("Crash") /\ FALSE /\ UNCHANGED <<tid, l, dev, open, base, upd, qargs>>

TStep ==
  /\ l <= Len(Tr[tid]) /\ Ev.act \notin {"Init", "Crash", "Grad"}
  /\ open' = OpenAfter(Ev)
  /\ qargs' = CASE Ev.act = "EnterCalib" /\ Ev.outcome = "ok" -> [qargs EXCEPT !.ms = Append(@, Ev.args.momentum), !.snaps = Append(@, PrevGlobals)]
                 [] Ev.act = "ReEnterCalib" /\ Ev.outcome = "ok" /\ qargs.ms # <<>> ->
                      [ms |-> Append(qargs.ms, qargs.ms[Len(qargs.ms)]), re |-> qargs.re + 1, snaps |-> Append(qargs.snaps, PrevGlobals)]
                 [] Ev.act = "ExitCalib" /\ Ev.outcome = "ok" /\ qargs.ms # <<>> ->
                      \* (re-entries sit on top of the entry they repeat: they are left first)
                      [ms |-> SubSeq(qargs.ms, 1, Len(qargs.ms) - 1), re |-> IF Len(qargs.ms) = 1 THEN 0 ELSE qargs.re,
                       snaps |-> IF qargs.snaps = <<>> THEN <<>> ELSE SubSeq(qargs.snaps, 1, Len(qargs.snaps) - 1)]
                 [] Ev.act = "RaiseIn" -> [ms |-> <<>>, re |-> 0, snaps |-> <<>>]
                 [] OTHER -> qargs
  /\ \/ (JudgeOK(Ev) = TRUE /\ dev' = dev)
     \/ \E d \in DevOn : ((~JudgeOK(Ev) /\ DevSig(d, Ev)) = TRUE /\ dev' = dev \cup {d})
  /\ upd' = UpdAfter(Ev)
  /\ l' = l + 1 /\ UNCHANGED <<tid, base>>

TGrad == /\ Is("Grad") /\ l' = l + 1
         /\ \/ (GradOK(Ev) = TRUE /\ dev' = dev)
            \/ (Dev_C07_F16Float8Act /\ (~GradOK(Ev) /\ Ev.case.dtype = "float16" /\ Ev.case.aq \in {"qfloat8", "qfloat8_e4m3fn", "qfloat8_e5m2"}) = TRUE
                /\ dev' = dev \cup {"Dev_C07_F16Float8Act"})
         /\ UNCHANGED <<tid, open, base, upd, qargs>>

TNext == TStart \/ TStep \/ TGrad
Record == TLCSet(tid, <<l, dev>>)
SetSeq(S) == LET RECURSIVE H(_) H(T) == IF T = {} THEN <<>> ELSE LET x == CHOOSE x \in T : TRUE IN <<x>> \o H(T \ {x}) IN H(S)
Post == \A t \in 1..Len(Tr) :
          LET rr == TLCGet(t) IN
            PrintT(ToJson([tid |-> t, reached |-> rr[1], len |-> Len(Tr[t]), dev |-> SetSeq(rr[2])]))
=============================================================================
