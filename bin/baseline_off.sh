#!/bin/sh
# Runs the repository's pinned test-suite with the verification guard OFF and compares
# the passing set with /root/.vp/BASELINE.json (stable_pass). Exit 0 iff every stable test passes.
unset HUGGINGFACE_QUANTO_VERIF
OUT=$(mktemp -d)
cd "${VERIF_REPO:-/repo}" && /venv/bin/python -m pytest -ra -q -p no:cacheprovider --timeout=900 \
   --continue-on-collection-errors --junitxml="$OUT/junit.xml" > "$OUT/log.txt" 2>&1
/venv/bin/python - "$OUT/junit.xml" <<'PY'
import json, sys, xml.etree.ElementTree as ET
base = set(json.load(open('/root/.vp/BASELINE.json'))['stable_pass'])
root = ET.parse(sys.argv[1]).getroot()
passed = set()
for tc in root.iter('testcase'):
    if not any(ch.tag in ('failure', 'error', 'skipped') for ch in tc):
        passed.add(f"{tc.get('classname')}::{tc.get('name')}")
missing = sorted(base - passed)
print(f"baseline: {len(base)} stable tests, {len(base & passed)} passed now, {len(missing)} missing")
for m in missing[:30]:
    print("  NOT PASSING:", m)
sys.exit(1 if missing else 0)
PY
RC=$?
rm -rf "$OUT"
exit $RC
