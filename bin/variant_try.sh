#!/bin/bash
# variant_try.sh <patch.diff> <outdir> <check> [<check>...]
# Run quick checks against a scratch worktree of /repo with a patch applied, from a scratch copy of /verif
# (so neither /repo nor /verif/evidence is touched).  Prints one line per check: "<check> rc=<rc> <summary>".
PATCH=$(readlink -f $1); OUT=$2; shift 2
mkdir -p $OUT; OUT=$(readlink -f $OUT)
TAG=$$
W=/tmp/vt-repo-$TAG; V=/tmp/vt-verif-$TAG
git -C /repo worktree add --detach $W HEAD -q || exit 3
git -C $W apply $PATCH || { echo "PATCH DOES NOT APPLY"; git -C /repo worktree remove --force $W; exit 3; }
mkdir -p $V && rsync -a --exclude .git --exclude .cache --exclude evidence/replays /verif/ $V/
for CK in "$@"; do
  VERIF_REPO=$W VERIF_CACHE=/verif/.cache VERIF_TMP=/tmp $V/bin/verif check $CK --tier ${TIER:-quick} --seed ${SEED:-0} > $OUT/variant_$CK.out 2>&1; RC=$?
  echo "$CK rc=$RC viol=$(grep -c '^VIOLATION' $OUT/variant_$CK.out) $(tail -1 $OUT/variant_$CK.out)"
  if [ $RC -ne 0 ]; then mkdir -p $OUT/replays_$CK; cp $V/evidence/replays/$CK-*.json $OUT/replays_$CK/ 2>/dev/null; fi
done | tee $OUT/variant_result.txt
git -C /repo worktree remove --force $W; rm -rf $V
