#!/venv/bin/python
"""Regenerates MANIFEST.json from the table below (single source of truth for the interface)."""
import json
import os

ROOT = os.path.dirname(os.path.dirname(os.path.abspath(__file__)))

CHECKS = {
    # id: (spec modules, technique, level text, level note, design ref)
    "C04": ("Pack.tla, Trace_Pack.tla",
            "TLC exhaustive model check of the packing codec + TLC trace validation of every real kernel route",
            "Exhaustive inside the bound: every row residue 1..17 (67 thorough) x bits x trailing shape x position coding and all 256 byte "
            "values are model-checked (RoundTrip, Dense, KernelsAgree) and every TLC case is executed on the real PackedTensor and on each "
            "unpack route (python, C++ extension built from the working tree, top-level op with extensions enabled / disabled / failing); "
            "TLC validates each recorded step against the abstract properties. Random shapes/strides extend beyond the bound.",
            "Trusted: TLC/SANY, CommunityModules Json, torch tensor construction and .tolist() in the harness. Values are assumed to fit "
            "in `bits` (the statement's precondition).",
            "DESIGN.md 3.4, 5/C04"),
}

CHECKS.update({
    "C01": ("Grids.tla, QSym.tla, Trace_QSym.tla, Exact.tla, Trace_QNum.tla",
            "TLC exhaustive model check of the quantizer pipeline on an exact lattice + TLC trace validation (exact big-integer arithmetic) of real executions",
            "QSym.tla transcribes divide/round/clamp/cast/dequantize one action each; TLC checks NearestGridPoint, SaturatesNotWraps, "
            "RequantIdempotent on every lattice point (all int8 quarter steps, every float8 grid point / midpoint / neighbour / beyond-range "
            "point) and emits each case; all cases are executed on quantize_activation / SymmetricQuantizer (3 dtypes, per-tensor and "
            "per-axis, strided) and TLC validates the recorded codes and dequantized values with zero tolerance. Wide domain: the "
            "float16/bfloat16 value space (1/32 stratified in quick, complete in thorough), boundary-directed float32 values, per-axis "
            "scales, quanto's qfloat8 alias and every symmetric-quantizer call made by the repository's own tests (recorded by a pytest plugin) are validated by Trace_QNum in exact integer arithmetic with the derived rounding tolerance (DESIGN 7.1).",
            "Trusted: TLC, Python integer/Fraction conversion of bit patterns (harness/exact.py). Tolerance 4u*max(|x|,|s*v|,s)+eta(1+s); "
            "elements whose grid point overflows the working dtype are excluded and counted.",
            "DESIGN.md 3.2, 5/C01, 7.1"),
    "C02": ("QAff.tla, Trace_QAff.tla, Trace_QNum.tla",
            "TLC model check of MaxOptimizer/AffineQuantizer/dequantize in exact rational arithmetic + lattice replay + wide-domain trace validation",
            "QAff.tla models reduce / scale+zero-point (int8 wrap) / quantize / dequantize and the group/ungroup index maps; TLC checks "
            "HalfStepPerGroup, StepBound, ZpFits, RequantIdempotentAffine, UngroupInvertsGroup, GroupIsPerAxis exhaustively over directed groups, "
            "shows that the pinned design (range without zero) violates the bound, and emits exact lattice groups and grouping maps that are "
            "assembled into real tensors (ranks 1-4, both axes, group sizes) and validated with zero tolerance; class-directed wide-domain tensors "
            "(one-sided, offset, constant, zero, mixed...) are validated in exact arithmetic with the derived tolerance.",
            "Trusted: TLC; harness/exact.py. The element->group map used for the verdict is the abstract one of the property (kept-axis index, "
            "chunk of group_size); rank-1 tensors are read as one group (DESIGN 9).",
            "DESIGN.md 3.2, 5/C02, 7.1"),
    "C03": ("QRange.tla, QAff.tla, Trace_QNum.tla",
            "TLC model check of the reduction-dimension formulas and locality + trace validation of optimizer calls and metamorphic pairs",
            "QRange.tla transcribes the reduction dims of AbsmaxOptimizer, MaxOptimizer, absmax_scale/axis_to_dim and quantize_weight's size-1 rule; "
            "TLC checks OneEntryPerIndex, NonSaturating, FullRange and the two-state Locality property, and emits tensors with distinct per-index ranges "
            "that are fed to the real optimizers together with class-directed random tensors (noise, one-sided, offset, constant, zero, tiny, huge, any binade, underflowing); every optimizer call and every metamorphic pair (others replaced / scaled / rows permuted) is "
            "validated by TLC in exact arithmetic.",
            "qmax readings per DESIGN 5/C03 (storage maximum for non-saturation, 2^(bits-1)-1 for full range). Scale entries are matched to rows/groups in the "
            "order the specification's grouping map defines.",
            "DESIGN.md 3.2, 5/C03"),
    "C16": ("QDegen.tla, QAff.tla, Trace_QNum.tla",
            "TLC model check of the special-value paths (0/0, x/0, overflow) + class-directed trace validation",
            "QDegen.tla explores the pipeline in an extended-real algebra so the NaN/Inf paths are enumerated by TLC; degenerate row-class mixtures "
            "(zeros, constant, one-sided, offset, subnormal, underflowing, any binade, huge, near-max, mixed, single, mixed-max) x six qtypes x axis x group size x dtype go through "
            "quantize_weight and are validated for finiteness and for the C01/C02 bounds; zero-weight Linear/Conv2d layers and calibration on "
            "zero/constant batches followed by inference are recorded as Finite events.",
            "The known finding (near-max overflow) is matched by the position of the non-finite values (only in rows touching 0.49 x finfo.max); anything else is a violation. The zero-batch finding was repaired.",
            "DESIGN.md 5/C16"),
    "C14": ("Config.tla, Trace_Config.tla",
            "TLC exhaustive model check of the argument-validation decision tables + replay of every configuration + TLC trace validation",
            "Config.tla transcribes the checks of quantize_weight, quantize_activation, SymmetricQuantizer, AffineQuantizer, group() and the automatic "
            "group-size loop in code order; TLC checks RejectIsValueError, UnsupportedRejected, AcceptedHonoured over the full cross product (8 shapes of rank 1-4 x "
            "axis None/-2..2 x group_size None/1..2*numel x optimizer family x scale layout x qtypes, ~12k configurations) and AutoGroupDivides/AutoGroupMaximal for every "
            "in_features 1..8192; every configuration is executed on the real entry point and the observed outcome class and result projection are validated by TLC against "
            "the abstract Supported/Honoured predicates; quantized Linear/Conv2d modules are instantiated over a stratified set of sizes and run.",
            "Supported(cfg) is written from the property statement, independently of the as-built checks. Rank 0 tensors, zero / negative group sizes are outside the statement's quantifier.",
            "DESIGN.md 3.3, 5/C14"),
    "C05": ("TensorOps.tla, Trace_TensorOps.tla, Exact.tla",
            "TLC model check of the dispatch tables + execution of TLC-generated operation programs on real tensors + TLC trace validation of every step",
            "TensorOps.tla transcribes both aten dispatch tables and the function table at the level stays-quantized / falls-back / raises with the re-wrapped "
            "metadata; TLC checks WellFormed and NoSpuriousRaise over all programs to depth 3-4, shows that each recorded deviation violates them, and generates all "
            "programs of depth 1-2 plus simulated programs of depth up to 7 (about 55 operations - views, slicing, cat/stack/split, scalar and tensor arithmetic, "
            "dtype and device moves, state_dict round trip, matmul / bmm / linear against plain, alike and differently quantized second operands, pass-through functions with and without "
            "keyword arguments - x operand kinds: per-tensor / per-axis int8 and float8, packed int2/int4 with and without groups, plain, equal / different scales, other qtype, three inputs, "
            "an operand derived from the working tensor). Each program runs on real quantized tensors and, step by step, on the dequantized operands; TLC validates "
            "every step: no spurious raise, and value equivalence in exact arithmetic by operation class (exact / float rounding / one step of the output grid / one accumulation for contractions).",
            "Deq(result) is quanto's dequantize() (verified by C01/C02). Tolerances per DESIGN 7.2. The kernel routes of mm/bmm/linear are decided by C07; here they appear as steps of programs. After a step admitted only as a listed known "
            "finding the rest of that program is skipped.",
            "DESIGN.md 3.5, 5/C05, 7.2, Appendix B"),
    "C06": ("TensorOps.tla, Trace_TensorOps.tla",
            "TLC model check of the re-wrapping metadata + TLC trace validation of the projection of every tensor produced by executed programs",
            "Same programs as C05; the verdict clauses are WellFormed (reported shape/dtype = those of the dequantized value and of the float twin, one code per element, "
            "scale laid out along the declared axis, storage type = payload dtype) evaluated after every step, MovesKeepCodes and DtypeMoveOnlyScale (codes, qtype, axis "
            "unchanged by clone/detach/contiguous/to/device move/state_dict round trip; only the scale changes dtype; packed tensors keep group size, packed rows, scale and zero-point layout). Tensors produced by freeze and deserialisation are projected with the same predicate in C09/C10.",
            "Strides are recorded, not judged. Grouped scale layouts of packed tensors are judged by C02/C03.",
            "DESIGN.md 3.5, 5/C06"),
    "C07": ("MatMul.tla, Trace_MatMul.tla, Exact.tla",
            "TLC model check of the kernel-route decision table and typed pipeline + replay of every configuration with closed-form operand families + TLC trace validation (bit-exact oracle)",
            "MatMul.tla transcribes QTensorLinear.forward, the CPU route selection of quanto::qbytes_mm and the contraction dtype of each route; TLC checks route totality, "
            "IntMMOnlyInt8Pair, PackOnlyBf16, LowBitFallsBack and NoIntermediateOverflow over the decision space (3 dtypes x 4 activation kinds x 5 weight qtypes x per-axis/per-tensor x "
            "sizes on both sides of every threshold x batch ranks x bias) and emits each configuration with an operand family whose exact product it can compute (integers x powers of two). "
            "Every configuration is executed (F.linear, torch.matmul, and for rank-3 activations torch.bmm against a quantized or plain batch of matrices; contiguous and strided; each call in a forked child) and TLC validates dtype, shape, finiteness and values: bit-exact on the exact "
            "domain, accumulation bound elsewhere. The route actually taken is observed by wrapping torch._int_mm / _weight_int8pack_mm from outside.",
            "CPU routes only. Known findings (float16 + float8 activations; bfloat16 int8-pack route) are matched by configuration signature.",
            "DESIGN.md 3.6, 5/C07, 7.2"),
    "C08": ("Lifecycle.tla, Trace_Lifecycle.tla",
            "TLC model check of the life-cycle state machine + execution of TLC-generated histories on real models + TLC trace validation",
            "Lifecycle.tla models quantize / forward / calibration contexts / freeze / optimizer steps / save / load / deepcopy; TLC checks SwapExactlyEligible and the other invariants "
            "over all histories to depth 4-5 and generates histories (exhaustive depth 3, simulated depth 8, plus directed ones: every architecture x weight qtype x activation qtype x module filter). "
            "Each history runs on real models (Linear / Conv2d / LayerNorm / ReLU chains, nested or flat, 2-3 dtypes); after quantize the module tree is projected (classes, names, hyper-parameters, dtype, "
            "device, bit-identity of parameters) and every forward of every quantized module is compared by TLC with its float twin on the dequantized weight and (de)quantized input, re-quantized with the output scale.",
            "Recipe values are compared within one step of the output grid plus an accumulation bound (C07 judges the contraction in detail). Chains of modules only.",
            "DESIGN.md 3.7, 5/C08"),
    "C09": ("Lifecycle.tla, Trace_Lifecycle.tla",
            "TLC model check (FreezePreservesDenotation, FrozenNeverStale) + executed histories + TLC trace validation of output digests and payload sizes",
            "Histories interleaving forward / calibrate / freeze / freeze-again / to(device) / deepcopy for all weight and activation qtypes; bit-identical output digests before/after freeze, model.to(device) and deepcopy "
            "(the move goes through torch's _apply machinery on frozen QTensor parameters and must leave every module's state unchanged), "
            "FreezeIdempotent, biases / scales untouched, and the payload of every frozen weight: ceil(rows x bits / 8) x (numel / rows) bytes, one scale (and zero-point) per output index or group.",
            "Only the CPU exists here: the device move is to the device the model is on (still the full _apply path). Digests are SHA-256 of the raw bytes of outputs / payloads.",
            "DESIGN.md 3.7, 5/C09"),
    "C10": ("Lifecycle.tla, Trace_Lifecycle.tla",
            "TLC model check (RoundTripDenotation) + executed save/load histories + TLC trace validation",
            "Histories quantize -> (calibrate) -> (freeze) -> save(serializer) -> load(target) -> forward -> save -> load for serializers none / pickle / weights_only / safetensors and targets default / same / requantize(); "
            "TLC validates StateDictPlain, serializer preservation, equality of codes / scales / zero-points / qtypes / activation scales (digests), bit-identical outputs and re-save equality.",
            "default / requantize targets only for unfiltered quantization. LayerNorm-with-activations into default / requantize targets is a known finding.",
            "DESIGN.md 3.7, 5/C10"),
    "C11": ("Lifecycle.tla, Trace_Lifecycle.tla",
            "TLC model check (NoStaleWeights, FrozenNoGrad) + executed training histories + TLC trace validation",
            "Histories of optimizer steps (real backward + update applied in place under no_grad, through .data, or by copy_ - a parameter of the spec action) interleaved with graph-less forwards and freeze: which leaves "
            "receive gradients (frozen weights and scales never), and after every update the next forward of each quantized module equals its float twin on the *current* float weights, quantized by the harness "
            "independently of anything the module may have kept.",
            "The numeric equality of the gradients with the float twin's autograd is checked by the gradient driver of this check (rank 2-4, contiguous and permuted upstream gradients).",
            "DESIGN.md 3.7, 5/C11"),
    "C12": ("Lifecycle.tla, Trace_Lifecycle.tla, Exact.tla",
            "TLC model check (EmaLawStep with symbolic folds) + executed calibration histories + TLC trace validation of every scale update in exact arithmetic",
            "Every update of every input / output scale is logged with the batch's own absmax/qmax (observed with module-level hooks installed by the harness) and validated by TLC against "
            "s' = m*s + (1-m)*new with the momentum of the open context (first update initialises), AdoptQuantizedInputScale and NoSaturationAfterOneBatch; sequential contexts, the same context object re-entered, momenta 0 / 0.25 / 0.5 / 0.9, qint8 / e4m3 / e5m2 activations, streamline on/off, raising forwards.",
            "Tolerance 6u per update. Under nested contexts both contexts update (modelled, not asserted). scale == 1.0 treated as uninitialised is a known finding.",
            "DESIGN.md 3.7, 5/C12"),
    "C13": ("Lifecycle.tla, CalibScope.tla, Trace_Lifecycle.tla",
            "TLC model check (CalibrationScoped, InferencePure; CalibScope.tla: the enter / re-enter / reuse / exit / raise protocol alone, complete for histories of any length with nesting <= 4) + executed histories with exceptions raised inside forwards + TLC trace validation of torch's global registries",
            "After every action of every history the harness reads torch's global forward (pre-)hook registries and the torch-function mode stack; TLC checks that leaving a context restores exactly what the matching enter found (a stack of snapshots; an exception restores what the outermost enter found; no other action changes them) "
            "(normal exit, nested, the same object entered again while open, exit by an exception raised in module k), that a forward outside calibration leaves every parameter / buffer / scale / qtype digest and its input unchanged, and that repeated evaluation is bit-identical.",
            "disable_extensions is outside the statement.",
            "DESIGN.md 3.7, 5/C13"),
    "C15": ("AWQ.tla, Trace_AWQ.tla, Exact.tla",
            "TLC model check of the layout index functions + complete characterisation of the real packers' position permutations + TLC trace validation",
            "AWQ.tla composes the reshape/permute chains of pack (v1, with/without AWQ order), pack_v2, unpack_v2 and of the reference packer literally as index functions; TLC checks Bijective, "
            "UnpackInvertsPack and V2EqualsReference for every position of every shape in the bound, and the algebra of the optimised representation (RepresentationsAgree, BackAndForth). "
            "The real packers' permutations are recovered completely per shape by packing four index-coded matrices (quanto and external/awq), and TLC validates bijectivity, the round trip and "
            "bit-identity of quanto's v2 map with the reference's; float16 group-128 weights are converted standard -> optimised -> standard and compared (values within one float16 rounding, codes / scales / zero-points / state_dict restored).",
            "The AWQ modules run on CPU with assert statements stripped; the CUDA gemm kernel is out of reach and not part of the statement.",
            "DESIGN.md 3.4, 5/C15"),
})

NOT_YET = {}

PROPS = [json.loads(l) for l in open(os.path.join(ROOT, "properties.jsonl"))]


def main():
    checks = []
    na = []
    for p in PROPS:
        pid = p["id"]
        if pid in CHECKS:
            spec, tech, text, note, ref = CHECKS[pid]
            checks.append({
                "property_id": pid,
                "quick_cmd": f"bin/verif check {pid} --tier quick",
                "thorough_cmd": f"bin/verif check {pid} --tier thorough",
                "evidence_file": f"/verif/evidence/{pid}.json",
                "replay_cmd_template": "bin/verif replay {path}",
                "engine": "tlc",
                "level_claimed": {"category": "model_checking", "text": text, "design_ref": ref},
                "level_note": note,
                "technique": tech,
            })
        else:
            na.append({"property_id": pid, "reason": NOT_YET.get(pid, "check under construction in this session: its TLA+ module is not yet bound to the code, so nothing is claimed yet")})
    man = {
        "version": 1,
        "setup_cmd": "bin/verif setup",
        "hooks": {
            "guard": "HUGGINGFACE_QUANTO_VERIF",
            "enable": "export HUGGINGFACE_QUANTO_VERIF=1 (set by harness/qenv.py before importing optimum.quanto from /repo); no compiled artefacts besides the C++ unpack kernel, rebuilt from /repo's sources into /verif/.cache keyed by source hash",
            "baseline_off_cmd": "bin/verif baseline",
            "source_commits": [],
            "add_only": True,
        },
        "engines": [
            {"name": "tlc", "path": "/verif/spec", "serves_properties": sorted(CHECKS),
             "kind_free_text": "explicit TLA+ specification (spec/*.tla) model-checked with TLC 1.8; conformance by executing TLC-generated cases/behaviours on the real code (harness/*.py) and validating the recorded traces with TLC (spec/Trace_*.tla)"},
        ],
        "checks": checks,
        "not_applicable": na,
        "notes": "See DESIGN.md. Exit 0 = held (KNOWN-FINDING lines allowed), 1 = VIOLATION, 2 = machinery failure. known_findings.json lists recorded and fixed defects.",
    }
    with open(os.path.join(ROOT, "MANIFEST.json"), "w") as f:
        json.dump(man, f, indent=1)
    print("checks:", [c["property_id"] for c in checks], "n/a:", [n["property_id"] for n in na])


main()
