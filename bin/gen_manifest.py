#!/venv/bin/python
"""Regenerates MANIFEST.json from the table below (single source of truth for the interface)."""
import json
import os

ROOT = os.path.dirname(os.path.dirname(os.path.abspath(__file__)))

CHECKS = {
    # id: (spec modules, technique, level text, level note, design ref)
    "C04": ("Pack.tla, Trace_Pack.tla",
            "TLC exhaustive model check of the packing codec + TLC trace validation of every real kernel route",
            "Exhaustive inside the bound: every row residue 1..17 (67 thorough) x bits x trailing shape x position coding and all 256 byte "
            "values are model-checked (RoundTrip, Dense, KernelsAgree) and every TLC case is executed on the real PackedTensor and on each "
            "unpack route (python, C++ extension built from the working tree, top-level op with extensions enabled / disabled / failing); "
            "TLC validates each recorded step against the abstract properties. Random shapes/strides extend beyond the bound.",
            "Trusted: TLC/SANY, CommunityModules Json, torch tensor construction and .tolist() in the harness. Values are assumed to fit "
            "in `bits` (the statement's precondition).",
            "DESIGN.md 3.4, 5/C04"),
}

NOT_YET = {}

PROPS = [json.loads(l) for l in open(os.path.join(ROOT, "properties.jsonl"))]


def main():
    checks = []
    na = []
    for p in PROPS:
        pid = p["id"]
        if pid in CHECKS:
            spec, tech, text, note, ref = CHECKS[pid]
            checks.append({
                "property_id": pid,
                "quick_cmd": f"bin/verif check {pid} --tier quick",
                "thorough_cmd": f"bin/verif check {pid} --tier thorough",
                "evidence_file": f"/verif/evidence/{pid}.json",
                "replay_cmd_template": "bin/verif replay {path}",
                "engine": "tlc",
                "level_claimed": {"category": "model_checking", "text": text, "design_ref": ref},
                "level_note": note,
                "technique": tech,
            })
        else:
            na.append({"property_id": pid, "reason": NOT_YET.get(pid, "check under construction in this session: its TLA+ module is not yet bound to the code, so nothing is claimed yet")})
    man = {
        "version": 1,
        "setup_cmd": "bin/verif setup",
        "hooks": {
            "guard": "HUGGINGFACE_QUANTO_VERIF",
            "enable": "export HUGGINGFACE_QUANTO_VERIF=1 (set by harness/qenv.py before importing optimum.quanto from /repo); no compiled artefacts besides the C++ unpack kernel, rebuilt from /repo's sources into /verif/.cache keyed by source hash",
            "baseline_off_cmd": "bin/verif baseline",
            "source_commits": [],
            "add_only": True,
        },
        "engines": [
            {"name": "tlc", "path": "/verif/spec", "serves_properties": sorted(CHECKS),
             "kind_free_text": "explicit TLA+ specification (spec/*.tla) model-checked with TLC 1.8; conformance by executing TLC-generated cases/behaviours on the real code (harness/*.py) and validating the recorded traces with TLC (spec/Trace_*.tla)"},
        ],
        "checks": checks,
        "not_applicable": na,
        "notes": "See DESIGN.md. Exit 0 = held (KNOWN-FINDING lines allowed), 1 = VIOLATION, 2 = machinery failure. known_findings.json lists recorded and fixed defects.",
    }
    with open(os.path.join(ROOT, "MANIFEST.json"), "w") as f:
        json.dump(man, f, indent=1)
    print("checks:", [c["property_id"] for c in checks], "n/a:", [n["property_id"] for n in na])


main()
