#!/bin/bash
# seed_try.sh <seed-id> <property> <check> [<check>...]: confirm a seeded change and run checks against it.
#   seed dir: /tmp/seed-<id> (patch.diff, demo.py), worktree /tmp/wt-<id>
ID=$1; PROP=$2; shift 2
S=/tmp/seed-$ID; W=/tmp/wt-$ID
OUT=/verif/seeded/$ID; mkdir -p $OUT
echo "== demo on /repo";  REPO=/repo /venv/bin/python $S/demo.py > $OUT/demo_repo.out 2>&1; D0=$?; tail -2 $OUT/demo_repo.out
# fresh worktree at current HEAD with the patch
git -C /repo worktree remove --force $W 2>/dev/null
git -C /repo worktree add --detach $W HEAD -q && git -C $W apply $S/patch.diff || { echo "PATCH DOES NOT APPLY"; exit 3; }
echo "== demo on patched worktree"; REPO=$W /venv/bin/python $S/demo.py > $OUT/demo_patched.out 2>&1; D1=$?; tail -2 $OUT/demo_patched.out
echo "== baseline on patched worktree"; VERIF_REPO=$W /verif/bin/baseline_off.sh | tee $OUT/baseline.out; B=${PIPESTATUS[0]}
git -C /repo worktree remove --force $W
echo "demo_repo=$D0 demo_patched=$D1 baseline=$B"
cp $S/patch.diff $S/demo.py $OUT/ 2>/dev/null; cp $S/notes.md $OUT/notes.md 2>/dev/null
RES=""
git -C /repo apply $S/patch.diff || exit 3
for CK in "$@"; do
  echo "== check $CK on patched /repo"
  /verif/bin/verif check $CK --tier quick > $OUT/check_$CK.out 2>&1; RC=$?
  tail -1 $OUT/check_$CK.out; echo "rc=$RC viol=$(grep -c '^VIOLATION' $OUT/check_$CK.out)"
  RES="$RES $CK:rc=$RC"
done
git -C /repo checkout -- . ; git -C /repo status --short
echo "RESULT id=$ID prop=$PROP demo_repo=$D0 demo_patched=$D1 baseline=$B checks:$RES" | tee $OUT/result.txt
