#!/bin/bash
# seed_try.sh <seed-id> <property> <check> [<check>...]: confirm a seeded change and run checks against it.
#   seed dir: /tmp/seed-<id> (patch.diff, demo.py), worktree /tmp/wt-<id>
ID=$1; PROP=$2; shift 2
S=/tmp/seed-$ID; W=/tmp/wt-$ID
OUT=/verif/seeded/$ID; mkdir -p $OUT
# (the unmodified tree is a pristine scratch worktree too: a demo may leave files behind, e.g. quanto's extension build directory)
P=/tmp/wt-$ID-pristine; git -C /repo worktree remove --force $P 2>/dev/null; git -C /repo worktree add --detach $P HEAD -q
echo "== demo on the unmodified tree";  REPO=$P /venv/bin/python $S/demo.py > $OUT/demo_repo.out 2>&1; D0=$?; tail -2 $OUT/demo_repo.out
git -C /repo worktree remove --force $P
# fresh worktree at current HEAD with the patch
git -C /repo worktree remove --force $W 2>/dev/null
git -C /repo worktree add --detach $W HEAD -q && git -C $W apply $S/patch.diff || { echo "PATCH DOES NOT APPLY"; exit 3; }
echo "== demo on patched worktree"; REPO=$W /venv/bin/python $S/demo.py > $OUT/demo_patched.out 2>&1; D1=$?; tail -2 $OUT/demo_patched.out
echo "== baseline on patched worktree"; VERIF_REPO=$W /verif/bin/baseline_off.sh | tee $OUT/baseline.out; B=${PIPESTATUS[0]}
git -C /repo worktree remove --force $W
echo "demo_repo=$D0 demo_patched=$D1 baseline=$B"
cp $S/patch.diff $S/demo.py $OUT/ 2>/dev/null; cp $S/notes.md $OUT/notes.md 2>/dev/null
# checks run against a scratch worktree with the patch and a scratch copy of /verif: /repo is never modified
/verif/bin/variant_try.sh $OUT/patch.diff $OUT "$@" | tee $OUT/checks.txt
RES=$(awk '{printf " %s:%s", $1, $2}' $OUT/checks.txt)
for CK in "$@"; do [ -f $OUT/variant_$CK.out ] && mv $OUT/variant_$CK.out $OUT/check_$CK.out; done
rm -f $OUT/variant_result.txt $OUT/checks.txt
echo "RESULT id=$ID prop=$PROP demo_repo=$D0 demo_patched=$D1 baseline=$B checks:$RES" | tee $OUT/result.txt
