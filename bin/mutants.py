#!/venv/bin/python
"""Systematic first-order mutants of quanto (text edits located with `ast`), used to look for blind spots of the checks.

  mutants.py gen <outdir> [--per-file N] [--seed S]     write <outdir>/<id>/patch.diff + meta.json
  mutants.py run <outdir> [--jobs J] [--ids a,b,...]    run the mapped quick checks against every mutant (bin/variant_try.sh)
  mutants.py report <outdir>                            table: killed (rc=1), machinery (rc=2), survived (rc=0)

Nothing here is a registered check; /repo is never modified (scratch worktrees).
"""
import argparse
import ast
import json
import os
import random
import subprocess
import sys
from concurrent.futures import ThreadPoolExecutor

REPO = "/repo"
ROOT = os.path.dirname(os.path.dirname(os.path.abspath(__file__)))
Q = "optimum/quanto/"
# file -> checks that bind it (most specific first)
MAP = {
    "tensor/quantizers/symmetric.py": ["C01", "C14", "C16"],
    "tensor/quantizers/affine.py": ["C02", "C14"],
    "tensor/optimizers/absmax_optimizer.py": ["C03", "C16"],
    "tensor/optimizers/symmetric_optimizer.py": ["C03", "C14"],
    "tensor/optimizers/max_optimizer.py": ["C02", "C03"],
    "tensor/optimizers/affine_optimizer.py": ["C03", "C14"],
    "tensor/qbits/packed.py": ["C04", "C05"],
    "tensor/qbits/group.py": ["C02", "C03", "C14"],
    "tensor/qbits/qbits.py": ["C02", "C06", "C10"],
    "tensor/qbits/qbits_ops.py": ["C05", "C09"],
    "tensor/qbytes.py": ["C06", "C10", "C01"],
    "tensor/qbytes_ops.py": ["C05", "C06", "C07"],
    "tensor/qtensor.py": ["C06", "C10", "C05"],
    "tensor/qtensor_func.py": ["C07", "C11"],
    "tensor/qweight.py": ["C14", "C03"],
    "tensor/qactivation.py": ["C14", "C12"],
    "tensor/core.py": ["C03", "C12"],
    "tensor/qtype.py": ["C01", "C14", "C03", "C08"],
    "library/qbytes_mm.py": ["C07"],
    "library/python/unpack.py": ["C04"],
    "library/ops.py": ["C04", "C07"],
    "nn/qmodule.py": ["C08", "C10", "C09", "C11", "C14"],
    "nn/qlinear.py": ["C08", "C11"],
    "nn/qconv2d.py": ["C08"],
    "nn/qlayernorm.py": ["C08", "C12"],
    "calibrate.py": ["C12", "C13"],
    "quantize.py": ["C08", "C10"],
    "tensor/qbits/awq/packed.py": ["C15"],
    "tensor/qbits/awq/qbits.py": ["C15"],
}

CMP = {ast.Eq: "!=", ast.NotEq: "==", ast.Lt: "<=", ast.LtE: "<", ast.Gt: ">=", ast.GtE: ">", ast.Is: "is not", ast.IsNot: "is",
       ast.In: "not in", ast.NotIn: "in"}
CMP_TXT = {ast.Eq: "==", ast.NotEq: "!=", ast.Lt: "<", ast.LtE: "<=", ast.Gt: ">", ast.GtE: ">=", ast.Is: "is", ast.IsNot: "is not",
           ast.In: "in", ast.NotIn: "not in"}
BIN = {ast.Add: ("+", "-"), ast.Sub: ("-", "+"), ast.Mult: ("*", "/"), ast.Div: ("/", "*"), ast.FloorDiv: ("//", "/"), ast.Mod: ("%", "//"),
       ast.LShift: ("<<", ">>"), ast.RShift: (">>", "<<"), ast.BitAnd: ("&", "|"), ast.BitOr: ("|", "&")}


class Finder(ast.NodeVisitor):
    def __init__(self, src):
        self.src = src
        self.lines = src.splitlines(keepends=True)
        self.off = [0]
        for ln in self.lines:
            self.off.append(self.off[-1] + len(ln))
        self.out = []      # (start, end, new_text, description)
        self.in_doc = False

    def pos(self, lineno, col):
        # ast columns are utf8 byte offsets; sources are ascii
        return self.off[lineno - 1] + col

    def span(self, n):
        return self.pos(n.lineno, n.col_offset), self.pos(n.end_lineno, n.end_col_offset)

    def between(self, a, b, old, new, what, line):
        s = self.span(a)[1]
        e = self.span(b)[0]
        seg = self.src[s:e]
        k = seg.find(old)
        if k < 0 or seg.count(old) != 1:
            return
        self.out.append((s + k, s + k + len(old), new, f"L{line}: {what} `{old}` -> `{new}`"))

    def visit_Compare(self, n):
        if len(n.ops) == 1 and type(n.ops[0]) in CMP:
            self.between(n.left, n.comparators[0], CMP_TXT[type(n.ops[0])], CMP[type(n.ops[0])], "comparison", n.lineno)
        self.generic_visit(n)

    def visit_BinOp(self, n):
        if type(n.op) in BIN and not (isinstance(n.left, ast.Constant) and isinstance(n.left.value, str)):
            old, new = BIN[type(n.op)]
            self.between(n.left, n.right, old, new, "operator", n.lineno)
        self.generic_visit(n)

    def visit_BoolOp(self, n):
        old, new = ("and", "or") if isinstance(n.op, ast.And) else ("or", "and")
        self.between(n.values[0], n.values[1], old, new, "boolean", n.lineno)
        self.generic_visit(n)

    def visit_UnaryOp(self, n):
        if isinstance(n.op, ast.Not):
            s, e = self.span(n)
            os_, oe = self.span(n.operand)
            self.out.append((s, e, "(" + self.src[os_:oe] + ")", f"L{n.lineno}: `not` removed"))
        self.generic_visit(n)

    def visit_Constant(self, n):
        s, e = self.span(n)
        v = n.value
        if isinstance(v, bool):
            self.out.append((s, e, str(not v), f"L{n.lineno}: constant {v} -> {not v}"))
        elif isinstance(v, int) and not isinstance(v, bool):
            for nv in ({0: [1], 1: [0, 2], -1: [0], 2: [1, 4], 8: [4], 4: [2, 8]}.get(v, [v + 1])):
                self.out.append((s, e, str(nv), f"L{n.lineno}: constant {v} -> {nv}"))
        elif isinstance(v, float):
            self.out.append((s, e, repr(v / 2), f"L{n.lineno}: constant {v} -> {v / 2}"))

    def visit_Expr(self, n):
        if isinstance(n.value, ast.Constant) and isinstance(n.value.value, str):
            return   # docstring
        self.generic_visit(n)

    def visit_If(self, n):
        # an `if` whose body only raises / returns / continues: force the test to False (guard removed)
        if len(n.body) == 1 and isinstance(n.body[0], (ast.Raise, ast.Return, ast.Continue)) and not n.orelse:
            s, e = self.span(n.test)
            self.out.append((s, e, "False", f"L{n.lineno}: guard `if {self.src[s:e][:50]}` disabled"))
        self.generic_visit(n)

    def visit_Assign(self, n):
        # drop a re-assignment (x = f(x)) statement: keeps the name bound
        if len(n.targets) == 1 and isinstance(n.targets[0], ast.Name):
            name = n.targets[0].id
            if any(isinstance(m, ast.Name) and m.id == name for m in ast.walk(n.value)):
                s, e = self.span(n)
                self.out.append((s, e, "pass", f"L{n.lineno}: statement `{self.src[s:e][:60]}` removed"))
        self.generic_visit(n)

    def visit_Call(self, n):
        # method calls that return a variant of their receiver: x.contiguous() / .t() / .flatten() / .detach() -> x
        f = n.func
        if isinstance(f, ast.Attribute) and f.attr in ("contiguous", "flatten", "detach", "abs") and not n.args and not n.keywords:
            s, e = self.span(n)
            rs, re_ = self.span(f.value)
            self.out.append((s, e, self.src[rs:re_], f"L{n.lineno}: `.{f.attr}()` removed"))
        # swap min / max keywords and torch.amax <-> torch.amin
        if isinstance(f, ast.Attribute) and f.attr in ("amax", "amin", "max", "min") and isinstance(f.value, ast.Name) and f.value.id == "torch":
            s, e = self.span(f)
            new = {"amax": "amin", "amin": "amax", "max": "min", "min": "max"}[f.attr]
            self.out.append((e - len(f.attr), e, new, f"L{n.lineno}: torch.{f.attr} -> torch.{new}"))
        self.generic_visit(n)


def mutants_of(rel):
    p = os.path.join(REPO, Q + rel)
    src = open(p).read()
    f = Finder(src)
    f.visit(ast.parse(src))
    res = []
    seen = set()
    for (s, e, new, what) in f.out:
        if (s, e, new) in seen:
            continue
        seen.add((s, e, new))
        msrc = src[:s] + new + src[e:]
        try:
            compile(msrc, p, "exec")
        except SyntaxError:
            continue
        res.append((what, msrc))
    return res


def gen(out, per_file, seed):
    rnd = random.Random(seed)
    os.makedirs(out, exist_ok=True)
    n = 0
    index = []
    for rel, checks in MAP.items():
        ms = mutants_of(rel)
        # skip mutants inside lines that only build error messages / __all__
        ms = [m for m in ms if "__all__" not in m[0]]
        pick = ms if len(ms) <= per_file else rnd.sample(ms, per_file)
        for what, msrc in pick:
            n += 1
            mid = "M%04d" % n
            d = os.path.join(out, mid)
            os.makedirs(d, exist_ok=True)
            tmp = os.path.join(d, "mutated.py")
            open(tmp, "w").write(msrc)
            diff = subprocess.run(["diff", "-u", "--label", "a/" + Q + rel, "--label", "b/" + Q + rel, os.path.join(REPO, Q + rel), tmp],
                                  capture_output=True, text=True).stdout
            os.remove(tmp)
            open(os.path.join(d, "patch.diff"), "w").write(diff)
            json.dump({"id": mid, "file": Q + rel, "what": what, "checks": checks}, open(os.path.join(d, "meta.json"), "w"))
            index.append({"id": mid, "file": rel, "what": what, "checks": checks, "available": len(ms)})
    json.dump(index, open(os.path.join(out, "index.json"), "w"), indent=1)
    print(f"{n} mutants in {out}")


def run_one(out, mid, checks):
    d = os.path.join(out, mid)
    if os.path.exists(os.path.join(d, "variant_result.txt")):
        return mid, open(os.path.join(d, "variant_result.txt")).read()
    lines = []
    # stop at the first check that reports a violation
    for ck in checks:
        r = subprocess.run([os.path.join(ROOT, "bin/variant_try.sh"), os.path.join(d, "patch.diff"), os.path.join(d, "run_" + ck), ck],
                           capture_output=True, text=True)
        line = (r.stdout.strip().splitlines() or ["%s rc=3 %s" % (ck, r.stderr[-200:])])[-1]
        lines.append(line)
        if " rc=1 " in line:
            break
    txt = "\n".join(lines) + "\n"
    open(os.path.join(d, "variant_result.txt"), "w").write(txt)
    return mid, txt


def run(out, jobs, ids):
    index = json.load(open(os.path.join(out, "index.json")))
    if ids:
        index = [m for m in index if m["id"] in ids]
    with ThreadPoolExecutor(jobs) as ex:
        for mid, txt in ex.map(lambda m: run_one(out, m["id"], m["checks"]), index):
            print(mid, "|", " || ".join(txt.strip().splitlines()), flush=True)


def verdict(txt):
    rcs = [ln.split(" rc=")[1].split()[0] for ln in txt.strip().splitlines() if " rc=" in ln]
    if "1" in rcs:
        return "killed"
    if all(r == "0" for r in rcs):
        return "survived"
    return "machinery"


def report(out):
    index = json.load(open(os.path.join(out, "index.json")))
    tab = {}
    for m in index:
        p = os.path.join(out, m["id"], "variant_result.txt")
        if not os.path.exists(p):
            continue
        v = verdict(open(p).read())
        tab.setdefault(v, []).append(m)
    for v, ms in tab.items():
        print(f"== {v}: {len(ms)}")
        if v != "killed":
            for m in ms:
                print("  ", m["id"], m["file"], m["what"])


if __name__ == "__main__":
    ap = argparse.ArgumentParser()
    ap.add_argument("cmd", choices=["gen", "run", "report"])
    ap.add_argument("out")
    ap.add_argument("--per-file", type=int, default=8)
    ap.add_argument("--seed", type=int, default=1)
    ap.add_argument("--jobs", type=int, default=3)
    ap.add_argument("--ids", default="")
    a = ap.parse_args()
    if a.cmd == "gen":
        gen(a.out, a.per_file, a.seed)
    elif a.cmd == "run":
        run(a.out, a.jobs, set(a.ids.split(",")) if a.ids else None)
    else:
        report(a.out)
