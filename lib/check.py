"""Common skeleton of a property check: MC runs, harness runs, trace validation,
negative controls, known findings, evidence, verdict and exit code.

Exit codes: 0 property held on everything explored (KNOWN-FINDING lines allowed),
            1 violation (a line `VIOLATION property=<id> replay=<path>` is printed),
            2 machinery failure (TLC error, vacuity, harness crash, negative control accepted).
"""
import argparse
import concurrent.futures as cf
import json
import os
import shutil
import subprocess
import sys
import time
import traceback

from . import tlc
from .tlc import MachineryError

ROOT = tlc.ROOT
PY = "/venv/bin/python"
KF_PATH = os.path.join(ROOT, "known_findings.json")


def load_known_findings():
    with open(KF_PATH) as f:
        return json.load(f)["findings"]


class Check:
    def __init__(self, prop, argv=None, level="model_checking"):
        ap = argparse.ArgumentParser()
        ap.add_argument("--tier", default=os.environ.get("VERIF_TIER", "quick"), choices=["quick", "thorough"])
        ap.add_argument("--seed", type=int, default=int(os.environ.get("VERIF_SEED", "0") or 0))
        ap.add_argument("--replay", default=None)
        ap.add_argument("--keep", action="store_true")
        self.args = ap.parse_args(argv)
        self.prop = prop
        self.tier = self.args.tier
        self.quick = self.tier == "quick"
        self.seed = self.args.seed
        self.level = level
        self.t0 = time.time()
        self.wd = tlc.workdir(f"verif-{prop}-")
        rd = os.path.join(ROOT, "evidence", "replays")
        if os.path.isdir(rd) and not self.args.replay:
            for fn in os.listdir(rd):
                if fn.startswith(prop + "-"):
                    os.unlink(os.path.join(rd, fn))
        self.states = 0
        self.transitions = 0
        self.traces = 0
        self.events = 0
        self.samples = []
        self.cov = {}
        self.extra = {}
        self.violations = []      # (message, replay object)
        self.known_hit = {}       # finding id -> count
        self.drift = []
        self.assumptions = []
        self.mc_runs = []
        self.neg_controls = 0
        self.findings = [f for f in load_known_findings()]
        self.notes = []

    # ---- known findings -> deviation switches --------------------------------
    def dev_constants(self, names):
        """names: deviation switch names of a spec. TRUE iff a *known* finding names it."""
        on = {f["switch"] for f in self.findings if f.get("status") == "known" and f.get("switch")}
        return {n: (n in on) for n in names}

    def finding_by_switch(self, sw):
        for f in self.findings:
            if f.get("switch") == sw:
                return f
        return None

    # ---- model checking --------------------------------------------------------
    def mc(self, module, cfg, *, workers=8, timeout=900, require_actions=(), what=None, coverage=True,
           env=None, heap="6g"):
        """cfg: path of a cfg file (absolute or relative to spec/) or a dict for write_cfg."""
        if isinstance(cfg, dict):
            path = os.path.join(self.wd, f"{module}-{len(self.mc_runs)}.cfg")
            tlc.write_cfg(path, **cfg)
        else:
            path = cfg if os.path.isabs(cfg) else os.path.join(tlc.SPEC, cfg)
        res = tlc.run_tlc(module, path, workers=workers, timeout=timeout, coverage=coverage, wd=self.wd,
                          env=env, heap=heap)
        tlc.require_clean(res, what or f"MC {module}")
        for a in require_actions:
            if res.coverage.get(a, 0) == 0:
                raise MachineryError(f"vacuity: action {a} of {module} never taken ({res.coverage})")
        self.states += res.distinct
        self.transitions += res.generated
        for k, v in res.coverage.items():
            self.cov[f"{module}.{k}"] = self.cov.get(f"{module}.{k}", 0) + v
        self.mc_runs.append({"module": module, "cfg": os.path.basename(path), "distinct": res.distinct,
                             "generated": res.generated, "wall_s": round(res.wall, 2)})
        return res

    def mc_expect_violation(self, module, cfg, invariant, *, workers=4, timeout=600, env=None):
        """The design-level model with a deviation switched on must violate `invariant`
        (shows that the invariant is not vacuous and that the deviation is real in the model)."""
        if isinstance(cfg, dict):
            path = os.path.join(self.wd, f"{module}-neg-{len(self.mc_runs)}.cfg")
            tlc.write_cfg(path, **cfg)
        else:
            path = cfg
        res = tlc.run_tlc(module, path, workers=workers, timeout=timeout, wd=self.wd, env=env)
        if invariant not in res.violated:
            raise MachineryError(f"expected {invariant} to be violated in {module}: {res.violated} {res.errors[:2]}\n"
                                 + tlc.tail(res.out, 15))
        self.mc_runs.append({"module": module, "cfg": os.path.basename(path), "expected_violation": invariant,
                             "wall_s": round(res.wall, 2)})
        return res

    def gen(self, module, cfg, *, timeout=900, workers=1, env=None, simulate=None, depth=None, seed=None):
        """Run TLC so that it prints cases / behaviours as JSON; returns the decoded list."""
        if isinstance(cfg, dict):
            path = os.path.join(self.wd, f"{module}-gen-{len(self.mc_runs)}.cfg")
            tlc.write_cfg(path, **cfg)
        else:
            path = cfg if os.path.isabs(cfg) else os.path.join(tlc.SPEC, cfg)
        res = tlc.run_tlc(module, path, workers=workers, timeout=timeout, wd=self.wd, env=env,
                          simulate=simulate, depth=depth, seed=seed)
        if simulate is None:
            tlc.require_clean(res, f"GEN {module}")
        elif res.errors or res.violated:
            raise MachineryError(f"GEN {module} (simulate): {res.errors[:3]} {res.violated}\n" + tlc.tail(res.out))
        self.states += res.distinct
        self.transitions += res.generated
        self.mc_runs.append({"module": module, "cfg": os.path.basename(path), "mode": "generate",
                             "distinct": res.distinct, "generated": res.generated, "cases": len(res.printed),
                             "wall_s": round(res.wall, 2)})
        return res.printed

    # ---- harness ---------------------------------------------------------------
    def harness(self, script, payload, *, timeout=1800, tag=None):
        """Run harness/<script> in a subprocess: JSON in (file), JSON out (file)."""
        tag = tag or script.replace(".py", "")
        n = len(os.listdir(self.wd))
        inp = os.path.join(self.wd, f"{tag}-{n}-in.json")
        out = os.path.join(self.wd, f"{tag}-{n}-out.json")
        with open(inp, "w") as f:
            json.dump(payload, f)
        env = dict(os.environ)
        env["PYTHONPATH"] = ROOT + os.pathsep + env.get("PYTHONPATH", "")
        p = subprocess.run([PY, os.path.join(ROOT, "harness", script), inp, out], env=env,
                           stdout=subprocess.PIPE, stderr=subprocess.STDOUT, text=True, timeout=timeout)
        if p.returncode != 0 or not os.path.exists(out):
            raise MachineryError(f"harness {script} failed rc={p.returncode}:\n{p.stdout[-3000:]}")
        with open(out) as f:
            return json.load(f)

    def record_repo_tests(self, paths, limit=300, timeout=1800):
        """Run (part of) the repository's own test-suite under harness/pytest_record.py and return the recorded traces."""
        repo = os.environ.get("VERIF_REPO", "/repo")
        out = os.path.join(self.wd, f"repo-tests-{len(os.listdir(self.wd))}.json")
        env = dict(os.environ)
        env.update({"VERIF_RECORD_OUT": out, "VERIF_RECORD_LIMIT": str(limit), "VERIF_SEED": str(self.seed),
                    "PYTHONPATH": os.path.join(ROOT, "harness") + os.pathsep + env.get("PYTHONPATH", "")})
        cmd = [PY, "-m", "pytest", "-q", "-p", "no:cacheprovider", "-p", "pytest_record", "--timeout=900", "--continue-on-collection-errors"] + list(paths)
        p = subprocess.run(cmd, cwd=repo, env=env, stdout=subprocess.PIPE, stderr=subprocess.STDOUT, text=True, timeout=timeout)
        if not os.path.exists(out):
            raise MachineryError(f"recording the repository tests failed rc={p.returncode}:\n{p.stdout[-2000:]}")
        with open(out) as f:
            d = json.load(f)
        self.extra.setdefault("repo_tests_recorded", {})["calls_seen"] = d["calls_seen"]
        self.extra["repo_tests_recorded"]["pytest_summary"] = p.stdout.strip().splitlines()[-1][:200] if p.stdout.strip() else ""
        return d["traces"]

    # ---- trace validation ------------------------------------------------------
    def validate(self, module, traces, *, constants=None, chunk=200, jobs=12, timeout=400, label=None,
                 count=True, env=None, heap="3g"):
        """Validate `traces` (list of lists of events) with spec/<module>.tla.
        Returns one dict per trace: {reached, len, accepted, ...extra fields printed by Post}."""
        if not traces:
            return []
        self._last_validation = {"module": module, "constants": constants}
        chunks = [traces[i:i + chunk] for i in range(0, len(traces), chunk)]
        cfgp = os.path.join(self.wd, f"{module}-{label or 't'}-{time.time_ns()}.cfg")
        tlc.write_cfg(cfgp, init="TInit", next_="TNext", constants=constants, constraints=["Record"],
                      postcondition="Post")

        def one(ci):
            tf = os.path.join(self.wd, f"{module}-{label or 't'}-{ci}-{time.time_ns()}.json")
            with open(tf, "w") as f:
                json.dump(chunks[ci], f)
            e = {"TRACE_FILE": tf}
            if env:
                e.update(env)
            res = tlc.run_tlc(module, cfgp, workers=1, timeout=timeout, wd=self.wd, env=e, heap=heap)
            if not self.args.keep:
                os.unlink(tf)
            if res.errors or res.violated or not res.ok:
                raise MachineryError(f"trace validation {module} chunk {ci}: {res.errors[:3]} {res.violated}\n"
                                     + tlc.tail(res.out, 30))
            by = {r["tid"]: r for r in res.printed if isinstance(r, dict) and "tid" in r}
            if len(by) != len(chunks[ci]):
                raise MachineryError(f"trace validation {module}: {len(by)} verdicts for {len(chunks[ci])} traces\n"
                                     + tlc.tail(res.out, 30))
            outl = []
            for i in range(len(chunks[ci])):
                r = by[i + 1]
                r["accepted"] = r["reached"] == r["len"] + 1
                outl.append(r)
            return outl, res.generated, res.distinct

        results = [None] * len(chunks)
        with cf.ThreadPoolExecutor(max_workers=jobs) as ex:
            futs = {ex.submit(one, i): i for i in range(len(chunks))}
            for fu in cf.as_completed(futs):
                results[futs[fu]] = fu.result()
        flat = []
        for r, g, d in results:
            flat.extend(r)
            if count:
                self.transitions += g
                self.states += d
        if count:
            self.traces += len(traces)
            self.events += sum(len(t) for t in traces)
        return flat

    def screen(self, traces, module, *, constants=None, **kw):
        """Traces in which a call into the code under verification raised (event "Raised", see harness/total.py)
        are judged here - no action of any trace specification admits that event - and taken out of the list,
        so that statistics and negative controls only see well-formed observations."""
        bad = [t for t in traces if any(isinstance(e, dict) and e.get("act") == "Raised" for e in t)]
        if not bad:
            return traces
        res = self.validate(module, bad, constants=constants, label="raised", **kw)
        for r in res:
            if r["accepted"]:
                raise MachineryError(f"{module} admitted a trace with a Raised event")
        self.judge(bad, res, describe=lambda t: next(e for e in t if e.get("act") == "Raised"))
        self.extra["raised_in_code_under_test"] = self.extra.get("raised_in_code_under_test", 0) + len(bad)
        ids = {id(t) for t in bad}
        return [t for t in traces if id(t) not in ids]

    def negative_controls(self, module, controls, *, constants=None, env=None):
        """controls: list of (name, trace) that MUST be rejected by the trace spec."""
        if not controls:
            raise MachineryError(f"no negative controls for {module}")
        res = self.validate(module, [t for _, t in controls], constants=constants, label="neg", count=False, env=env)
        for (name, _), r in zip(controls, res):
            if r["accepted"] and not r.get("dev"):
                raise MachineryError(f"negative control '{name}' was accepted by {module}")
        self.neg_controls += len(controls)

    # ---- verdicts ---------------------------------------------------------------
    def violation(self, message, replay):
        self.violations.append((message, replay))

    def known(self, switch, n=1):
        self.known_hit[switch] = self.known_hit.get(switch, 0) + n

    def judge(self, traces, results, *, describe=None, why_key="why"):
        """Standard post-processing of trace verdicts: rejected -> violation; accepted only
        through deviation actions -> known finding (the switch was on, so it is listed)."""
        for tr, r in zip(traces, results):
            for d in r.get("dev", []) or []:
                self.known(d)
            if r.get("drift"):
                self.drift.append({"trace": describe(tr) if describe else tr[0], "drift": r["drift"]})
            if not r["accepted"]:
                k = r["reached"]
                ev = tr[k - 1] if 0 < k <= len(tr) else None
                msg = f"step {k} of {len(tr)} not admitted by the specification"
                if r.get(why_key):
                    msg += f" (failing clauses: {r[why_key]})"
                self.violation(msg, {"trace": tr, "failing_index": k, "event": ev, "verdict": r,
                                     "trace_module": getattr(self, "_last_validation", {}).get("module"),
                                     "constants": getattr(self, "_last_validation", {}).get("constants")})

    def add_samples(self, items, n=3):
        for it in items[:n]:
            self.samples.append(it)

    # ---- finish -------------------------------------------------------------------
    def finish(self):
        wall = time.time() - self.t0
        os.makedirs(os.path.join(ROOT, "evidence", "replays"), exist_ok=True)
        lines = []
        for sw, n in sorted(self.known_hit.items()):
            f = self.finding_by_switch(sw)
            if f is None or f.get("status") != "known":
                # a deviation action that is not listed as known can only fire if the switch is on
                self.violation(f"deviation {sw} observed but not listed as a known finding", {"switch": sw})
                continue
            if self.prop != f["property"] and self.prop not in f.get("also", []):
                self.violation(f"finding {f['id']} is not listed for property {self.prop}", {"switch": sw})
                continue
            lines.append(f"KNOWN-FINDING: property={self.prop} {f['id']}: {f['what']} [{n} case(s)]")
        vio_lines = []
        for i, (msg, replay) in enumerate(self.violations[:20]):
            path = os.path.join(ROOT, "evidence", "replays", f"{self.prop}-{i}.json")
            with open(path, "w") as f:
                json.dump({"property": self.prop, "message": msg, "replay": replay}, f, indent=1, default=str)
            vio_lines.append(f"VIOLATION property={self.prop} replay={path}")
            print(f"  {self.prop}: {msg}"[:600])
        cov = {
            "states": self.states,
            "transitions": self.transitions,
            "traces_validated_against_impl": self.traces,
            "events_validated": self.events,
            "samples": self.samples[:6] or ["<none>"],
            "mc_runs": self.mc_runs,
            "action_coverage": self.cov,
            "negative_controls_rejected": self.neg_controls,
            "known_findings_hit": self.known_hit,
            "model_drift": self.drift[:10],
            "notes": self.notes,
        }
        cov.update(self.extra)
        ev = {
            "property_id": self.prop,
            "tier": self.tier,
            "seed": self.seed,
            "level": self.level,
            "coverage": cov,
            "assumptions": self.assumptions,
            "wall_s": round(wall, 2),
            "violations": len(self.violations),
        }
        with open(os.path.join(ROOT, "evidence", f"{self.prop}.json"), "w") as f:
            json.dump(ev, f, indent=1, default=str)
        for ln in lines:
            print(ln)
        for ln in vio_lines:
            print(ln)
        print(f"{self.prop} {self.tier}: states={self.states} transitions={self.transitions} traces={self.traces} "
              f"events={self.events} violations={len(self.violations)} known={sum(self.known_hit.values())} "
              f"drift={len(self.drift)} wall={wall:.1f}s")
        if not self.args.keep:
            shutil.rmtree(self.wd, ignore_errors=True)
        return 1 if self.violations else 0


def main(prop, body, level="model_checking"):
    """Run body(check) with uniform error handling."""
    c = Check(prop, sys.argv[1:], level=level)
    try:
        body(c)
        rc = c.finish()
    except MachineryError as e:
        if c.violations:
            # violations already witnessed (each with a replay) stand, whatever stopped the rest of the check
            c.notes.append(f"check stopped early after {len(c.violations)} violation(s): {str(e)[:300]}")
            sys.exit(c.finish())
        print(f"MACHINERY-FAILURE property={prop}: {e}", file=sys.stderr)
        if not c.args.keep:
            shutil.rmtree(c.wd, ignore_errors=True)
        sys.exit(2)
    except Exception as e:  # noqa: BLE001
        traceback.print_exc()
        if c.violations:
            c.notes.append(f"check stopped early after {len(c.violations)} violation(s): {type(e).__name__} {str(e)[:300]}")
            sys.exit(c.finish())
        print(f"MACHINERY-FAILURE property={prop}: unexpected exception", file=sys.stderr)
        if not c.args.keep:
            shutil.rmtree(c.wd, ignore_errors=True)
        sys.exit(2)
    sys.exit(rc)
