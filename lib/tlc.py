"""TLC / SANY runner: starts the model checker under a timeout, parses its output.

Everything TLC writes goes to a scratch directory created per run (metadir, generated
cfg, trace files); the specification modules are read from /verif/spec.
"""
import json
import os
import re
import shutil
import subprocess
import tempfile
import time

ROOT = os.path.dirname(os.path.dirname(os.path.abspath(__file__)))
SPEC = os.path.join(ROOT, "spec")
JAR = "/opt/veriftools/tla/tla2tools.jar"
CM = "/opt/veriftools/tla/CommunityModules-deps.jar"


class MachineryError(Exception):
    """TLC / SANY failure, vacuity failure ... (exit code 2, never a verdict)."""


class TLCResult:
    def __init__(self):
        self.generated = 0
        self.distinct = 0
        self.ok = False           # "No error has been found"
        self.violated = []        # names of violated invariants / properties
        self.post_failed = False
        self.printed = []         # values printed with PrintT(ToJson(..)) decoded
        self.raw_printed = []     # other printed lines
        self.coverage = {}        # action name -> count of states
        self.errors = []
        self.wall = 0.0
        self.out = ""
        self.cmd = ""


def workdir(prefix="verif-"):
    base = os.environ.get("VERIF_TMP") or tempfile.gettempdir()
    return tempfile.mkdtemp(prefix=prefix, dir=base)


def write_cfg(path, *, init="Init", next_="Next", spec=None, invariants=(), properties=(),
              constants=None, constraints=(), action_constraints=(), postcondition=None,
              view=None, deadlock=False, symmetry=None):
    lines = []
    if spec:
        lines.append(f"SPECIFICATION {spec}")
    else:
        lines.append(f"INIT {init}")
        lines.append(f"NEXT {next_}")
    if constants:
        lines.append("CONSTANTS")
        for k, v in constants.items():
            if isinstance(v, bool):
                v = "TRUE" if v else "FALSE"
            lines.append(f"  {k} = {v}")
    for i in invariants:
        lines.append(f"INVARIANT {i}")
    for p in properties:
        lines.append(f"PROPERTY {p}")
    for c in constraints:
        lines.append(f"CONSTRAINT {c}")
    for c in action_constraints:
        lines.append(f"ACTION_CONSTRAINT {c}")
    if postcondition:
        lines.append(f"POSTCONDITION {postcondition}")
    if view:
        lines.append(f"VIEW {view}")
    lines.append(f"CHECK_DEADLOCK {'TRUE' if deadlock else 'FALSE'}")
    with open(path, "w") as f:
        f.write("\n".join(lines) + "\n")


_STATES = re.compile(r"(\d+) states generated, (\d+) distinct states found")
_COV = re.compile(r"^<(\w+) line \d+, col \d+ to line \d+, col \d+ of module (\w+)>: (\d+):(\d+)")


def tla_value(v):
    """Python value -> TLA+ constant expression text (ints, bools, strings, lists, dicts)."""
    if isinstance(v, bool):
        return "TRUE" if v else "FALSE"
    if isinstance(v, int):
        return str(v)
    if isinstance(v, str):
        return json.dumps(v)
    if isinstance(v, (list, tuple)):
        return "<<" + ", ".join(tla_value(x) for x in v) + ">>"
    if isinstance(v, dict):
        return "[" + ", ".join(f"{k} |-> {tla_value(x)}" for k, x in v.items()) + "]"
    raise TypeError(v)


def run_tlc(module, cfg_path, *, workers=1, timeout=600, env=None, coverage=False,
            simulate=None, depth=None, seed=None, heap="6g", extra=(), wd=None, dfs=False):
    """Run TLC on spec/<module>.tla with the given cfg. Returns TLCResult.

    simulate: None or number of behaviours (uses -simulate num=N)."""
    own = wd is None
    if own:
        wd = workdir("tlc-")
    meta = os.path.join(wd, "meta-" + module + "-" + str(time.time_ns()))
    javaopts = ["-XX:+UseParallelGC", "-Xss256m", f"-Xmx{heap}", "-Dtlc2.tool.fp.FPSet.impl=tlc2.tool.fp.OffHeapDiskFPSet"]
    if dfs:
        javaopts.append("-Dtlc2.tool.queue.IStateQueue=StateDeque")
    cmd = ["java"] + javaopts + ["-cp", f"{JAR}:{CM}", "tlc2.TLC",
           "-workers", str(workers), "-metadir", meta, "-noGenerateSpecTE",
           "-config", cfg_path]
    if coverage:
        cmd += ["-coverage", "1"]
    if simulate is not None:
        cmd += ["-simulate", f"num={simulate}"]
        if depth:
            cmd += ["-depth", str(depth)]
    if seed is not None:
        cmd += ["-seed", str(seed)]
    cmd += list(extra)
    cmd.append(os.path.join(SPEC, module + ".tla"))
    e = dict(os.environ)
    e.pop("JAVA_TOOL_OPTIONS", None)
    if env:
        e.update({k: str(v) for k, v in env.items()})
    res = TLCResult()
    res.cmd = " ".join(cmd)
    t0 = time.time()
    try:
        p = subprocess.run(cmd, cwd=SPEC, env=e, stdout=subprocess.PIPE, stderr=subprocess.STDOUT,
                           timeout=timeout, text=True, errors="replace")
        out = p.stdout
        rc = p.returncode
    except subprocess.TimeoutExpired as ex:
        out = (ex.stdout or b"")
        if isinstance(out, bytes):
            out = out.decode(errors="replace")
        res.out = out
        res.errors.append(f"TLC timeout after {timeout}s")
        res.wall = time.time() - t0
        shutil.rmtree(meta, ignore_errors=True)
        if own:
            shutil.rmtree(wd, ignore_errors=True)
        return res
    res.wall = time.time() - t0
    res.out = out
    res.rc = rc
    parse_output(res, out)
    shutil.rmtree(meta, ignore_errors=True)
    if own:
        shutil.rmtree(wd, ignore_errors=True)
    return res


def parse_output(res, out):
    in_err = False
    for line in out.splitlines():
        s = line.strip()
        if s.startswith('"{') or s.startswith('"['):
            try:
                res.printed.append(json.loads(json.loads(s)))
                continue
            except Exception:
                res.raw_printed.append(s)
                continue
        m = _STATES.search(s)
        if m:
            res.generated = int(m.group(1))
            res.distinct = int(m.group(2))
        if "No error has been found" in s:
            res.ok = True
        m = re.match(r"Error: Invariant (\w+) is violated", s)
        if m:
            res.violated.append(m.group(1))
        m = re.match(r"Error: The invariant of (\w+) is equal to FALSE", s)
        if m:
            res.violated.append(m.group(1))
        m = re.match(r"Error: Action property (\w+) is violated", s)
        if m:
            res.violated.append(m.group(1))
        if "Temporal properties were violated" in s:
            res.violated.append("<temporal>")
        if s.startswith("Error: Postcondition") or "postcondition" in s.lower() and "false" in s.lower():
            res.post_failed = True
        if s.startswith("Error:") or s.startswith("***Parse Error") or "Semantic errors" in s:
            res.errors.append(s)
        m = _COV.match(s)
        if m:
            name = m.group(1)
            res.coverage[name] = res.coverage.get(name, 0) + int(m.group(4))
        if s.startswith('"') and s.endswith('"') and not s.startswith('"{'):
            try:
                res.raw_printed.append(json.loads(s))
            except Exception:
                res.raw_printed.append(s)


def require_clean(res, what, allow_post_fail=False):
    """Raise MachineryError unless TLC finished without error."""
    bad = [e for e in res.errors if not (allow_post_fail and "ostcondition" in e)]
    if res.violated:
        raise MachineryError(f"{what}: TLC reports violated {res.violated}\n" + tail(res.out))
    if bad or (not res.ok and not (allow_post_fail and res.post_failed)):
        raise MachineryError(f"{what}: TLC did not finish cleanly: {bad[:3]}\n" + tail(res.out))


def tail(out, n=40):
    lines = [l for l in out.splitlines() if not l.startswith(("Parsing file", "Semantic processing", "Linting of"))]
    return "\n".join(lines[-n:])


def sany(module):
    cmd = ["java", "-cp", f"{JAR}:{CM}", "tla2sany.SANY", os.path.join(SPEC, module + ".tla")]
    p = subprocess.run(cmd, cwd=SPEC, stdout=subprocess.PIPE, stderr=subprocess.STDOUT, text=True, timeout=120)
    ok = p.returncode == 0 and "Semantic errors" not in p.stdout and "Parse Error" not in p.stdout and "*** Errors" not in p.stdout
    return ok, p.stdout
