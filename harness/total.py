"""Totality of the drivers: a call into the code under verification that raises on an input the
property quantifies over is an *observation* (event "Raised", admitted by no action of any trace
specification, hence a violation with a replay), not a failure of the machinery.

Environment failures (memory, I/O) and assertion failures of the harness itself stay what they are.
"""
import functools
import os
import traceback

REPO = os.path.realpath(os.environ.get("VERIF_REPO", "/repo"))


def from_code_under_test(e):
    return any(os.path.realpath(fr.filename).startswith(REPO + os.sep) for fr in traceback.extract_tb(e.__traceback__))


def observable(e):
    if isinstance(e, (MemoryError, OSError, KeyboardInterrupt, SystemExit)):
        return False
    if isinstance(e, AssertionError) and not from_code_under_test(e):
        return False
    return isinstance(e, Exception)


def raised_event(act, e, **ctx):
    tb = traceback.extract_tb(e.__traceback__)
    where = next((f"{os.path.relpath(os.path.realpath(fr.filename), REPO)}:{fr.lineno}" for fr in reversed(tb)
                  if os.path.realpath(fr.filename).startswith(REPO + os.sep)), f"{os.path.basename(tb[-1].filename)}:{tb[-1].lineno}" if tb else "?")
    ev = {"act": "Raised", "during": act, "error": type(e).__name__, "msg": str(e)[:300], "where": where}
    ev.update({k: (v if isinstance(v, (int, float, str, bool, list, dict, type(None))) else str(v)) for k, v in ctx.items()})
    return ev


def total(act, as_list=False, describe=None):
    """decorator for a function that performs calls into quanto and returns one event (or a list of events)"""
    def deco(fn):
        @functools.wraps(fn)
        def w(*a, **k):
            try:
                return fn(*a, **k)
            except BaseException as e:  # noqa: BLE001
                if not observable(e):
                    raise
                ctx = describe(*a, **k) if describe else {}
                ev = raised_event(act, e, **ctx)
                return [ev] if as_list else ev
        return w
    return deco
