"""Replays TLC-generated lattice groups (QAff) on quantize_weight(qint2|qint4): tensors are
assembled from the groups with TLC's grouping maps; records events for Trace_QAff."""
import json
import sys
from fractions import Fraction

import qenv  # noqa: F401
import torch
from exact import FMT, FMT_NAME, from_fractions, pow2, to_fractions
from total import total
from optimum.quanto import qtypes, quantize_weight
from optimum.quanto.tensor.quantizers import AffineQuantizer

BAD = 30000001


def as_int(v, unit):
    if isinstance(v, str):
        return BAD
    q = v / unit
    return int(q) if q.denominator == 1 and abs(q) < 30000000 else BAD


class Unrepresentable(Exception):
    """the numbers TLC chose do not exist in this float format (decided before any call into quanto)"""


def run(gc, groups, bits, fmt, k, strided):
    shape, axis, gs = gc["shape"], gc["axis"], gc["gs"]
    n = len(gc["gid"])
    ng = n // gs
    dtype = FMT[fmt]
    units = [pow2(k + (g % 3) - 2) for g in range(ng)]          # distinct scale exponent per group
    vals = [None] * n
    for p in range(n):
        g, slot = gc["gid"][p], gc["slot"][p]
        vals[p] = Fraction(groups[g % len(groups)]["x"][slot]) * units[g]
    try:
        x = from_fractions(vals, dtype, shape)
    except ValueError as e:
        raise Unrepresentable(str(e))
    if strided and x.ndim >= 2:
        x = x.transpose(0, -1).contiguous().transpose(0, -1)
    return _run(gc, groups, bits, fmt, k, strided, x, units)


@total("AffL", describe=lambda gc, groups, bits, fmt, k, strided, x, units: {"bits": bits, "fmt": fmt, "k": k, "shape": gc["shape"], "axis": gc["axis"], "gs": gc["gs"], "strided": bool(strided)})
def _run(gc, groups, bits, fmt, k, strided, x, units):
    shape, axis, gs = gc["shape"], gc["axis"], gc["gs"]
    n = len(gc["gid"])
    ng = n // gs
    qtype = qtypes["qint%d" % bits]
    q = quantize_weight(x, qtype, axis, gs)
    dq = q.dequantize()
    q2 = AffineQuantizer.apply(dq, qtype, axis, gs, q._scale, q._zeropoint)
    dqs = to_fractions(dq) if list(dq.shape) == list(shape) else [None] * n
    sc = to_fractions(q._scale)
    zp = [int(z) for z in q._zeropoint.reshape(-1).tolist()]
    codes = [int(c) for c in q._data.unpack().reshape(-1).tolist()]
    out_groups = []
    for g in range(ng):
        ps = sorted([p for p in range(n) if gc["gid"][p] == g], key=lambda p: gc["slot"][p])
        gcodes = []
        for p in ps:
            gp = gc["gpos"][p]
            gcodes.append(codes[gp] if gp < len(codes) else -1)
        out_groups.append({"x": [groups[g % len(groups)]["x"][gc["slot"][p]] for p in ps],
                           "dq": [as_int(dqs[p], units[g]) if dqs[p] is not None else BAD for p in ps],
                           "scale_q": as_int(sc[g], units[g]) if len(sc) == ng else BAD,
                           "zp": zp[g] if len(zp) == ng else BAD, "codes": gcodes})
    if any(d == BAD for g in out_groups for d in g["dq"]):
        # the code chose a scale off the lattice (allowed: only an upper bound on the step is
        # claimed): judge this tensor with the wide-domain predicate instead
        from h_qnum import aff_event
        ev = aff_event(x, bits, axis, gs, tag="lattice-fallback")
        return ev
    return {"act": "AffL", "bits": bits, "fmt": fmt, "k": k, "shape": shape, "axis": axis, "gs": gs,
            "strided": bool(strided), "groups": out_groups,
            "out_shape": list(dq.shape), "out_dtype": FMT_NAME.get(dq.dtype, str(dq.dtype)),
            "payload_equal": bool(torch.equal(q._data._data, q2._data._data)),
            "scale_count": len(sc), "scale_dtype": FMT_NAME.get(q._scale.dtype, str(q._scale.dtype))}


def main():
    req = json.load(open(sys.argv[1]))
    lat = {2: [c for c in req["lat"] if c["bits"] == 2], 4: [c for c in req["lat"] if c["bits"] == 4]}
    gcases = [g for g in req["grp"] if g["gs"] == 3]
    traces = []
    wide = []
    skipped = 0
    for bits in (2, 4):
        groups = lat[bits]
        off = 0
        gi = 0
        while off < len(groups):
            gc = gcases[gi % len(gcases)]
            ng = len(gc["gid"]) // gc["gs"]
            chunk = groups[off:off + ng]
            off += ng
            gi += 1
            for fmt in ("float32", "float16", "bfloat16"):
                for k in req.get("ks", [-4, 1]):
                    try:
                        ev = run(gc, chunk, bits, fmt, k, strided=(gi % 2 == 0))
                    except Unrepresentable:
                        skipped += 1
                        continue
                    if ev["act"] == "Raised":
                        traces.append([ev])
                        continue
                    if ev["act"] == "AffW":
                        wide.append([ev])
                        continue
                    exp = [{"zp": chunk[g % len(chunk)]["zp"], "codes": chunk[g % len(chunk)]["codes"]} for g in range(ng)]
                    ev["tlc_equal"] = all(o["zp"] == e["zp"] and o["codes"] == e["codes"] for o, e in zip(ev["groups"], exp))
                    traces.append([ev])
    json.dump({"traces": traces, "wide": wide, "skipped": skipped}, open(sys.argv[2], "w"))


if __name__ == "__main__":
    main()
