"""Executes TLC-generated programs of tensor operations (TensorOps.tla) on real quantized
tensors and on their dequantized float twins; records every step for Trace_TensorOps."""
import json
import sys
from fractions import Fraction

import qenv  # noqa: F401
import torch
import torch.nn.functional as F
from exact import FMT, FMT_NAME, codes_of, limbs, to_fractions
from optimum.quanto import QBitsTensor, QBytesTensor, QTensor, qtypes, quantize_activation, quantize_weight
from optimum.quanto.tensor.quantizers import SymmetricQuantizer

AX = {None: "none", 0: "first", -1: "last"}


def low_exp(v):
    if v == 0:
        return None
    num, den = v.numerator, v.denominator
    e = -(den.bit_length() - 1)
    while num % 2 == 0:
        num //= 2
        e += 1
    return e


def bigs(vals, E):
    out = []
    for v in vals:
        if isinstance(v, str):
            out.append({"s": 2, "m": []})
            continue
        q = v / (Fraction(2) ** E if E >= 0 else Fraction(1, 2 ** -E))
        n = int(q)
        assert q.denominator == 1
        out.append({"s": (n > 0) - (n < 0), "m": limbs(abs(n))})
    return out


def values_of(t):
    if t.dtype == torch.bool:
        return [Fraction(int(b)) for b in t.reshape(-1).tolist()]
    if not t.dtype.is_floating_point:
        return [Fraction(int(b)) for b in t.reshape(-1).tolist()]
    return to_fractions(t)


def lattice_values(shape, qt, salt=0):
    """position-coded values that are exactly representable codes (times the scale)"""
    n = 1
    for d in shape:
        n *= d
    if qt in ("qint8", "qint4", "qint2", "none"):
        pool = [-128, -127, -100, -64, -17, -5, -3, -1, 0, 1, 2, 4, 9, 33, 90, 127]
    else:
        pool = [-6.0, -3.5, -2.0, -1.25, -0.5, -0.25, 0.0, 0.125, 0.375, 0.5, 1.0, 1.5, 2.5, 3.0, 5.0, 7.0]
    return [pool[(7 * p + 3 + salt) % len(pool)] for p in range(n)]


def make_tensor(kind, qt, axis, shape, dtype, scale_exp=-4, salt=0, like=None):
    """returns (tensor, twin)"""
    vals = lattice_values(shape, qt, salt)
    if kind == "Plain":
        t = (torch.tensor(vals, dtype=torch.float64) * 2.0 ** scale_exp).reshape(shape).to(dtype)
        return t, t.clone()
    qtype = qtypes[qt]
    if kind == "QBits":
        lo = [0, 1, 3, 7, 12, 15, 5, 9] if qt == "qint4" else [0, 1, 3, 2]
        n = len(vals)
        v = torch.tensor([lo[(5 * p + salt) % len(lo)] - (4 if qt == "qint4" else 1) for p in range(n)], dtype=torch.float64)
        t = (v * 2.0 ** scale_exp).reshape(shape).to(dtype)
        q = quantize_weight(t, qtype, 0, 2 if list(shape) == [2, 4] else None)     # [2, 4]: two groups of two per row
        return q, q.dequantize()
    if axis == "none":
        scale = like if like is not None else torch.tensor(2.0 ** scale_exp, dtype=dtype)
        t = (torch.tensor(vals, dtype=torch.float64).reshape(shape) * scale.to(torch.float64)).to(dtype)
        q = quantize_activation(t, qtype, scale.clone())
        return q, q.dequantize()
    ax = 0 if axis == "first" else -1
    n = shape[ax]
    sshape = [1] * len(shape)
    sshape[ax] = n
    scale = torch.tensor([2.0 ** (scale_exp - i) for i in range(n)], dtype=dtype).reshape(sshape)
    t = (torch.tensor(vals, dtype=torch.float64).reshape(shape) * scale.to(torch.float64)).to(dtype)
    q = SymmetricQuantizer.apply(t, qtype, ax, scale)
    return q, q.dequantize()


def project(x, with_values=True):
    if isinstance(x, (list, tuple)):
        return {"kind": "list", "len": len(x)}
    if not isinstance(x, torch.Tensor):
        return {"kind": "py:" + type(x).__name__}
    p = {"shape": list(x.shape), "dtype": FMT_NAME.get(x.dtype, str(x.dtype).replace("torch.", ""))}
    if isinstance(x, QBytesTensor):
        p.update({"kind": "QBytes", "qt": x.qtype.name, "axis": AX.get(x.axis, str(x.axis)), "pshape": list(x._data.shape),
                  "sshape": list(x._scale.shape), "pdtype": str(x._data.dtype).replace("torch.", ""),
                  "sdtype": FMT_NAME.get(x._scale.dtype, str(x._scale.dtype)),
                  "storage": str(x.qtype.dtype).replace("torch.", "")})
        if with_values:
            try:
                p["codes"] = codes_of(x._data, x.qtype.name if x.qtype.name != "qfloat8" else "qfloat8_e4m3fn")
            except Exception:  # noqa: BLE001
                p["codes"] = []
    elif isinstance(x, QBitsTensor):
        p.update({"kind": "QBits", "qt": x.qtype.name, "axis": AX.get(x.axis, str(x.axis)), "pshape": list(x._data.shape),
                  "sshape": list(x._scale.shape), "pdtype": "uint8", "sdtype": FMT_NAME.get(x._scale.dtype, str(x._scale.dtype)),
                  "storage": "uint8", "gs": x._group_size if x._group_size is not None else 0,
                  "zshape": list(x._zeropoint.shape), "zdtype": str(x._zeropoint.dtype).replace("torch.", ""),
                  "packed_rows": int(x._data._data.shape[0])})
        if with_values:
            p["codes"] = [[1 if c else 0, int(c)] for c in x._data.unpack().reshape(-1).tolist()]
    elif isinstance(x, QTensor):
        p.update({"kind": "QOther"})
    else:
        p.update({"kind": "Plain", "qt": "none", "axis": "none", "pshape": list(x.shape)})
    return p


def apply_op(o, x, aux, aux2, mask):
    op = o["op"]
    if op == "view":
        return x.reshape(o["shape"])
    if op == "transpose":
        return x.transpose(o["d0"] - 1, o["d1"] - 1)
    if op == "t":
        return x.t()
    if op == "permute":
        return x.permute([p - 1 for p in o["perm"]])
    if op == "select":
        return x.select(o["dim"] - 1, o["index"])
    if op == "slice":
        idx = [slice(None)] * x.ndim
        idx[o["dim"] - 1] = slice(o["start"], o["stop"])
        return x[tuple(idx)]
    if op == "unsqueeze":
        return x.unsqueeze(o["dim"] - 1)
    if op == "slice_step":
        idx = [slice(None)] * x.ndim
        idx[o["dim"] - 1] = slice(None, None, 2)
        return x[tuple(idx)]
    if op == "select_neg":
        return x.select(o["dim"] - 1 - x.ndim, -1)
    if op == "squeeze":
        return x.squeeze()
    if op == "flatten":
        return x.flatten()
    if op == "mul_t":
        return x * torch.tensor(float(o["k"]), dtype=x.dtype)
    if op == "div_t":
        return x / torch.tensor(float(o["k"]), dtype=x.dtype)
    if op == "rmul":
        return o["k"] * x
    if op == "mul_t1":
        return x * torch.full(o["oshape"], float(o["k"]), dtype=x.dtype)
    if op == "div_t1":
        return x / torch.full(o["oshape"], float(o["k"]), dtype=x.dtype)
    if op == "add_tensor":
        return x + aux
    if op == "expand":
        return x.expand(2, *x.shape)
    if op == "cat":
        return torch.cat([x, aux] + ([aux2] if o["aux"] == "three" else []), o["dim"] - 1)
    if op == "stack":
        return torch.stack([x, aux] + ([aux2] if o["aux"] == "three" else []), o["dim"] - 1)
    if op == "split":
        return torch.split(x, o["size"], o["dim"] - 1)[o["take"] - 1]
    if op == "mul":
        return x * o["k"]
    if op == "div":
        return x / o["k"]
    if op == "div_tensor":
        return x / aux
    if op == "neg":
        return -x
    if op == "relu":
        return F.relu(x)
    if op == "clone":
        return x.clone()
    if op == "detach":
        return x.detach()
    if op == "abs":
        return torch.abs(x)
    if op == "add1":
        return x + 1
    if op == "sum":
        return x.sum()
    if op == "sum_kw":
        return x.sum(dim=-1, keepdim=True)
    if op == "clamp_kw":
        return torch.clamp(x, min=-0.125, max=0.25)
    if op == "gelu_kw":
        return F.gelu(x, approximate="tanh")
    if op == "mean_kw":
        return torch.mean(x, dim=0)
    if op == "gelu":
        return F.gelu(x)
    if op == "contiguous":
        return x.contiguous()
    if op == "roundtrip":
        if isinstance(x, QTensor):
            d = {}
            x.save_to_state_dict(d, "w.", False)
            assert all(isinstance(v, str) or type(v) is torch.Tensor for v in d.values()), "state dict entry that is neither a plain tensor nor a string"
            return type(x).load_from_state_dict(d, "w.") if not isinstance(x, QBitsTensor) else QBitsTensor.load_from_state_dict(d, "w.")
        return x.clone()
    if op == "softmax":
        return torch.softmax(x, o["dim"] - 1)
    if op == "where":
        return torch.where(mask, x, aux)
    if op == "lt":
        return x < aux
    if op == "to":
        return x.to(FMT[o["dtype"]])
    if op == "copy_":
        y = x.clone()
        y.copy_(aux)
        return y
    if op == "to_device":
        return x.to(device=torch.device("cpu"), copy=True)
    if op == "matmul":
        return x @ aux
    if op == "bmm":
        return torch.bmm(x, aux)
    if op == "linear":
        return F.linear(x, aux)
    raise KeyError(op)


def deq(x):
    return x.dequantize() if isinstance(x, QTensor) else x


def make_aux(o, cur, twin, salt):
    """second operand with the shape of the working tensor"""
    kind = o.get("aux")
    if kind is None:
        return None, None, None, None
    shape = list(twin.shape)
    if o["op"] == "matmul":
        shape = [shape[-1], 2]
    elif o["op"] == "bmm":
        shape = [shape[0], shape[-1], 2]
    elif o["op"] == "linear":
        shape = [2, shape[-1]]
    dtype = twin.dtype if twin.dtype.is_floating_point else torch.float32
    if kind in ("qw8_last", "qw8_tensor"):
        wf = make_tensor("Plain", "none", "none", shape, dtype, salt=salt + 1)[1]
        if kind == "qw8_tensor":
            a = quantize_activation(wf, qtypes["qint8"], torch.tensor(2.0 ** -5, dtype=dtype))
        else:
            sc = torch.tensor([2.0 ** (-5 - (i % 2)) for i in range(shape[-1])], dtype=dtype).reshape(1, shape[-1])
            a = SymmetricQuantizer.apply(wf, qtypes["qint8"], -1, sc) if shape[-1] > 1 else quantize_activation(wf, qtypes["qint8"], sc.reshape(()))
        return a, a.dequantize().clone(), None, None
    if kind in ("qw8", "qw4"):
        # a quantized weight as quantize_weight builds it (per output row)
        wf = make_tensor("Plain", "none", "none", shape, dtype, salt=salt + 1)[1]
        a = quantize_weight(wf, qtypes["qint8" if kind == "qw8" else "qint4"], 0)
        return a, a.dequantize().clone(), None, None
    curq = isinstance(cur, QBytesTensor) and cur.axis is None
    qt = cur.qtype.name if isinstance(cur, QBytesTensor) else "qint8"
    if qt == "qfloat8":
        qt = "qfloat8_e4m3fn"
    like = cur._scale.detach().clone() if curq else None
    if kind == "scaled_self":
        # a second operand DERIVED from the working tensor (for a quantized tensor it shares the payload object)
        a = cur * 2
        return a, (deq(a).clone() if isinstance(a, QTensor) else a.clone()), None, None
    if kind in ("same", "three") and isinstance(cur, QBytesTensor) and cur.axis is not None and list(cur._data.shape) == shape:
        # per-axis working tensor: a second operand with the same qtype and bit-identical per-axis scales
        vals = torch.tensor(lattice_values(shape, qt, salt + 1), dtype=torch.float64).reshape(shape)
        outs = []
        for k in (1, 2):
            t = (vals.roll(k, -1) * cur._scale.to(torch.float64)).to(dtype)
            q = SymmetricQuantizer.apply(t, cur.qtype, cur.axis, cur._scale.detach().clone())
            outs += [q, q.dequantize()]
        return tuple(outs)
    if kind in ("same", "three"):
        a, fa = make_tensor("QBytes", qt, "none", shape, dtype, salt=salt + 1, like=like)
        a2, fa2 = make_tensor("QBytes", qt, "none", shape, dtype, salt=salt + 2, like=like)
        return a, fa, a2, fa2
    if kind == "scale2":
        a, fa = make_tensor("QBytes", qt, "none", shape, dtype, scale_exp=-3, salt=salt + 1)
        return a, fa, None, None
    if kind == "otherq":
        oq = "qfloat8_e4m3fn" if qt == "qint8" else "qint8"
        a, fa = make_tensor("QBytes", oq, "none", shape, dtype, salt=salt + 1, like=like)
        return a, fa, None, None
    if o["op"] == "where" and curq:
        # keep `other` inside the quantization range of the input (where() re-quantizes with the input scale)
        a = make_tensor("QBytes", qt, "none", shape, dtype, salt=salt + 1, like=like)[1].clone()
        return a, a.clone(), None, None
    a, fa = make_tensor("Plain", "none", "none", shape, dtype, salt=salt + 1)
    return a, fa, None, None


def run_program(sk, dtype_name="float32"):
    init = sk["init"]
    dtype = FMT[dtype_name]
    cur, twin = make_tensor(init["kind"], init["qt"], init["axis"], init["shape"], dtype)
    steps = [{"act": "Init", "proj": project(cur), "init": init, "dtype": dtype_name}]
    for i, o in enumerate(sk["prog"]):
        # the reference of every step is the same operation on the *dequantized current operands*
        try:
            twin = deq(cur).clone() if isinstance(cur, QTensor) else cur
        except Exception as e:  # noqa: BLE001
            steps.append({"act": "Op", "o": o, "op": o["op"], "before": project(cur, False), "aux": {"kind": "none"}, "twin_ok": True,
                          "outcome": "dequantize:" + type(e).__name__, "after": {"kind": "Raise"}, "twin_shape": []})
            break
        try:
            aux, faux, aux2, faux2 = make_aux(o, cur, twin, i)
        except Exception:  # noqa: BLE001  the working tensor is ill-formed (already reported at the step that produced it)
            break
        mask = None
        if o["op"] == "where":
            mask = (torch.arange(twin.numel()) % 3 != 0).reshape(twin.shape)
        if (o["op"] == "linear" and o.get("aux") in ("qw8", "qw8_tensor") and dtype_name == "bfloat16" and twin.shape[-1] % 4 == 0
                and not (isinstance(cur, QBytesTensor) and cur.axis is None)):
            # bfloat16 float input x int8 weights with in_features % 4 == 0 reaches torch._weight_int8pack_mm, which takes the
            # process down unless in_features % 16 == 0 (known finding C07-int8pack-bf16, judged by C07 in forked children)
            break
        ev = {"act": "Op", "o": o, "op": o["op"], "before": project(cur), "aux": project(aux, False) if aux is not None else {"kind": "none"}}
        try:
            ft = apply_op(o, twin, faux, faux2, mask)
            ev["twin_ok"] = True
        except Exception as e:  # noqa: BLE001
            ev["twin_ok"] = False
            ev["twin_exc"] = type(e).__name__
            steps.append(ev)
            break
        try:
            res = apply_op(o, cur, aux, aux2, mask)
            ev["outcome"] = "value"
        except RecursionError:
            ev["outcome"] = "RecursionError"
            res = None
        except Exception as e:  # noqa: BLE001
            ev["outcome"] = type(e).__name__
            ev["msg"] = str(e)[:160]
            res = None
        if res is not None:
            ev["after"] = project(res)
            try:
                dq = deq(res)
                dv, tv = values_of(dq), values_of(ft)
                ev["dq_shape"] = list(dq.shape)
                ev["dq_dtype"] = FMT_NAME.get(dq.dtype, str(dq.dtype).replace("torch.", ""))
            except Exception as e:  # noqa: BLE001
                ev["outcome"] = "dequantize:" + type(e).__name__
                dv, tv = [], values_of(ft)
            ev["twin_shape"] = list(ft.shape)
            ev["twin_dtype"] = FMT_NAME.get(ft.dtype, str(ft.dtype).replace("torch.", ""))
            extra = []
            if isinstance(res, (QBytesTensor, QBitsTensor)):
                extra = to_fractions(res._scale)
            prev_scale = to_fractions(cur._scale) if isinstance(cur, (QBytesTensor, QBitsTensor)) else []
            es = [low_exp(v) for v in dv + tv + extra + prev_scale if not isinstance(v, str) and v != 0]
            E = min(es) if es else 0
            ev["E"] = E
            ev["dq"] = bigs(dv, E)
            ev["twin"] = bigs(tv, E)
            ev["scale"] = bigs(extra, E)
            ev["scale_before"] = bigs(prev_scale, E)
            if o["op"] in ("matmul", "bmm", "linear"):
                ev["kdim"] = int(twin.shape[-1])
                ar = to_fractions(apply_op(o, twin.abs().double(), faux.abs().double(), None, None))
                E2 = min([E] + [low_exp(v) for v in ar if not isinstance(v, str) and v != 0])
                if E2 != E:      # one common exponent for every logged number of the event
                    E = E2
                    ev["E"] = E
                    ev["dq"], ev["twin"], ev["scale"], ev["scale_before"] = bigs(dv, E), bigs(tv, E), bigs(extra, E), bigs(prev_scale, E)
                ev["absref"] = bigs(ar, E)
            fmt_in = FMT_NAME.get(twin.dtype, "float32")
            fmt_out = ev["twin_dtype"] if ev["twin_dtype"] in FMT else fmt_in
            ev["fmt_in"], ev["fmt_out"] = fmt_in, fmt_out
        else:
            ev["after"] = {"kind": "Raise"}
            ev["twin_shape"] = list(ft.shape)
        steps.append(ev)
        if res is None:
            break
        cur, twin = res, ft
        if not isinstance(cur, torch.Tensor) or cur.dtype == torch.bool or cur.ndim == 0:
            break
    return steps


def run_chunk(chunk):
    return [run_program(sk, dt) for sk, dt in chunk]


def _chunk_job(chunk):
    """One chunk of programs in a forked grandchild: a kernel that takes the process down (it happened: a pool worker that dies
    makes multiprocessing wait forever) costs that one program, which becomes a `Crash` observation (admitted by no action)."""
    from isolate import run_isolated
    r = run_isolated(run_chunk, chunk, timeout=900)
    if "ok" in r:
        return r["ok"]
    out = []
    for sk, dt in chunk:
        r1 = run_isolated(run_program, sk, dt, timeout=180)
        if "ok" in r1:
            out.append(r1["ok"])
        else:
            out.append([{"act": "Crash", "init": sk["init"], "dtype": dt, "prog": sk["prog"],
                         "outcome": r1.get("exc") or ("signal %s" % r1.get("crash")), "msg": (r1.get("msg") or "")[:300]}])
    return out


def main():
    req = json.load(open(sys.argv[1]))
    jobs = [(sk, dt) for sk in req["skeletons"] for dt in req.get("dtypes", ["float32"])]
    import multiprocessing as mp
    nproc = req.get("procs", 12)
    # warm up once in the parent (kernels, op registration), so that forked children do not repeat it
    try:
        run_program({"init": {"kind": "QBytes", "qt": "qint8", "axis": "none", "shape": [2, 3]}, "prog": [{"op": "neg"}]}, "float32")
    except Exception:  # noqa: BLE001  (the programs below report it)
        pass
    chunks = [jobs[i:i + 64] for i in range(0, len(jobs), 64)]
    if nproc > 1 and len(jobs) > 200:
        with mp.get_context("fork").Pool(nproc) as pool:
            traces = [t for part in pool.map(_chunk_job, chunks, chunksize=1) for t in part]
    else:
        traces = [t for c in chunks for t in _chunk_job(c)]
    json.dump({"traces": traces}, open(sys.argv[2], "w"))


if __name__ == "__main__":
    main()
