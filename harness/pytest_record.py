"""pytest plugin (loaded with `-p pytest_record` from outside the repository): records every call of
quanto's symmetric / affine quantizers made by the repository's OWN tests as SymW / AffW events, so that
TLC can validate them with Trace_QNum (any driver becomes a checker of C01 / C02).

Nothing in the repository is edited: the two autograd Function entry points are wrapped at import time."""
import json
import os
import random
import sys

sys.path.insert(0, os.path.dirname(os.path.abspath(__file__)))
os.environ.setdefault("VERIF_NO_EXT", "1")

_EVENTS = []
_RND = random.Random(int(os.environ.get("VERIF_SEED", "0") or 0))
_LIMIT = int(os.environ.get("VERIF_RECORD_LIMIT", "400"))
_SEEN = 0


def pytest_configure(config):
    import qenv  # noqa: F401
    import torch
    import h_qnum as H
    from exact import FMT_NAME
    from optimum.quanto.tensor.quantizers import AffineQuantizer, SymmetricQuantizer

    sym_apply = SymmetricQuantizer.apply
    aff_apply = AffineQuantizer.apply
    busy = {"on": False}

    def keep():
        global _SEEN
        _SEEN += 1
        if len(_EVENTS) < _LIMIT:
            return True
        j = _RND.randrange(_SEEN)          # reservoir sampling over all calls of the run
        if j < _LIMIT:
            _EVENTS[j] = None
            return j
        return False

    def store(slot, ev):
        if slot is True:
            _EVENTS.append(ev)
        else:
            _EVENTS[slot] = ev

    def sym(base, qtype, axis, scale):
        out = sym_apply(base, qtype, axis, scale)
        if busy["on"] or not isinstance(base, torch.Tensor) or base.dtype not in FMT_NAME or base.numel() == 0 or base.device.type != "cpu":
            return out
        slot = keep()
        if slot is False:
            return out
        busy["on"] = True
        try:
            with torch.no_grad():
                b = base.detach()
                s = scale.detach()
                if b.numel() > 256:     # a contiguous block of rows / elements, with its own scales
                    if axis is None or s.numel() == 1:
                        b = b.reshape(-1)[:256].clone()
                        ax = None
                    elif b.ndim == 2 and (axis == 0 or axis == -2):
                        rows = max(1, 256 // b.shape[1])
                        b, s, ax = b[:rows].clone(), s[:rows].clone(), 0
                        if rows == 1:
                            b, s, ax = b.reshape(-1), s.reshape(()), None
                    else:
                        return out
                else:
                    ax = axis
                    if ax is not None and ax == b.ndim - 1:
                        ax = -1
                qt = qtype.name if qtype.name != "qfloat8" else "qfloat8_e4m3fn"
                if qt not in H.FE or (ax is not None and (ax not in (0, -1) or b.ndim < 2 or b.shape[ax] == 1)):
                    return out
                if not bool(torch.isfinite(b.float()).all()) or not bool((s > 0).all()) or not bool(torch.isfinite(s.float()).all()):
                    return out
                ev = H.sym_event(b, qt, s.reshape(()) if ax is None else s, ax, "quantizer" if ax is not None else "activation", tag="repo-test")
                ev["test"] = os.environ.get("PYTEST_CURRENT_TEST", "")[:150]
                store(slot, ev)
        except Exception as e:  # noqa: BLE001   recording must never disturb the test
            store(slot, None)
            sys.stderr.write("verif-record: %r\n" % (e,))
        finally:
            busy["on"] = False
        return out

    def aff(base, qtype, axis, group_size, scale, zeropoint):
        out = aff_apply(base, qtype, axis, group_size, scale, zeropoint)
        if busy["on"] or not isinstance(base, torch.Tensor) or base.dtype not in FMT_NAME or base.device.type != "cpu" or base.numel() > 4096 or base.numel() == 0:
            return out
        slot = keep()
        if slot is False:
            return out
        busy["on"] = True
        try:
            with torch.no_grad():
                b = base.detach()
                if not bool(torch.isfinite(b.float()).all()) or axis not in (0, -1):
                    return out
                ev = H.aff_event(b, qtype.bits, axis, group_size, tag="repo-test")
                ev["test"] = os.environ.get("PYTEST_CURRENT_TEST", "")[:150]
                store(slot, ev)
        except Exception as e:  # noqa: BLE001
            store(slot, None)
            sys.stderr.write("verif-record: %r\n" % (e,))
        finally:
            busy["on"] = False
        return out

    SymmetricQuantizer.apply = staticmethod(sym)
    AffineQuantizer.apply = staticmethod(aff)


def pytest_sessionfinish(session, exitstatus):
    out = os.environ.get("VERIF_RECORD_OUT")
    if out:
        with open(out, "w") as f:
            json.dump({"traces": [[e] for e in _EVENTS if e], "calls_seen": _SEEN}, f)
