"""Exact views of floating-point tensors: value <-> (integer mantissa, exponent).

Only integer arithmetic on bit patterns and Python ints / Fractions is used."""
from fractions import Fraction

import torch

FMT = {"float32": torch.float32, "float16": torch.float16, "bfloat16": torch.bfloat16}
FMT_NAME = {v: k for k, v in FMT.items()}
QT_F8 = {"qfloat8_e4m3fn": torch.float8_e4m3fn, "qfloat8_e5m2": torch.float8_e5m2, "qfloat8": torch.float8_e4m3fn}


def pow2(e):
    return Fraction(2) ** e if e >= 0 else Fraction(1, 2 ** (-e))


def to_fractions(t):
    """Exact values of a float tensor (any float dtype incl. float8) as Fractions (flat list).
    Non-finite values are returned as the strings 'inf', '-inf', 'nan'."""
    t = t.detach()
    if t.dtype in (torch.float8_e4m3fn, torch.float8_e5m2):
        t = t.to(torch.float32)
    d = t.to(torch.float64).reshape(-1).tolist()     # exact widening
    out = []
    for x in d:
        if x != x:
            out.append("nan")
        elif x in (float("inf"), float("-inf")):
            out.append("inf" if x > 0 else "-inf")
        else:
            out.append(Fraction(x))
    return out


def from_fractions(vals, dtype, shape=None):
    """Build a tensor of `dtype` holding exactly the given rationals (checked)."""
    d = torch.tensor([float(v) for v in vals], dtype=torch.float64)
    t = d.to(dtype)
    back = t.to(torch.float64).tolist()
    for a, b in zip(back, vals):
        if a != a or a in (float("inf"), float("-inf")) or Fraction(a) != b:
            raise ValueError(f"{b} is not representable in {dtype}")
    return t.reshape(shape) if shape is not None else t


def representable(v, dtype):
    d = torch.tensor([float(v)], dtype=torch.float64)
    if Fraction(float(v)) != v:
        return False
    return Fraction(d.to(dtype).to(torch.float64).item()) == v


def f8_code(byte, qt):
    """uint8 byte of a float8 payload -> [sgn, j] (j = magnitude index); NaN -> [0, -1], inf -> [0, -2]."""
    j = byte & 0x7F
    s = -1 if byte & 0x80 else 1
    if qt in ("qfloat8_e4m3fn", "qfloat8"):
        if j == 0x7F:
            return [0, -1]
    else:
        if j > 0x7B:
            return [0, -1] if j > 0x7C else [0, -2]
    return [s, j]


def codes_of(qtensor_data, qt):
    """Inner payload of a QBytesTensor -> list of [sgn, mag] codes."""
    if qt == "qint8":
        return [[(c > 0) - (c < 0), abs(c)] for c in qtensor_data.reshape(-1).tolist()]
    b = qtensor_data.reshape(-1).view(torch.uint8).tolist()
    return [f8_code(x, qt) for x in b]


def limbs(n, base_bits=14):
    """non-negative int -> little-endian limb list (base 2^14)"""
    assert n >= 0
    out = []
    mask = (1 << base_bits) - 1
    while n:
        out.append(n & mask)
        n >>= base_bits
    return out


def dyadic(v):
    """Fraction with power-of-two denominator -> (m, e) with m odd integer (or 0), v = m * 2^e"""
    if v == 0:
        return 0, 0
    num, den = v.numerator, v.denominator
    assert den & (den - 1) == 0, v
    e = -(den.bit_length() - 1)
    while num % 2 == 0:
        num //= 2
        e += 1
    return num, e
