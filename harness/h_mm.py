"""Replays MatMul.tla configurations: builds the operand families exactly, calls the real
quantized linear / matmul (each call in a forked child: some torch kernels reached through
quanto crash in this environment), records outputs as exact integers."""
import json
import sys
from fractions import Fraction

import qenv  # noqa: F401
import torch
import torch.nn.functional as F
from exact import FMT, FMT_NAME, limbs, to_fractions
from isolate import run_isolated
from optimum.quanto import QTensor, qtypes, quantize_activation, quantize_weight
from optimum.quanto.tensor.quantizers import SymmetricQuantizer

EA, EB = -3, -7


def ew(c, j):
    return -6 - (j % 3) if c["waxis"] == "per-axis" else -6


def A(fam, i, k, K):
    if fam == "onehot":
        return (i % 3) + 1 if k == (7 * i) % K else 0
    if fam == "alt":
        return (1 if k % 2 == 0 else -1) * (1 + (i % 2))
    if fam == "ramp":
        return ((k + i) % 4) - 1
    if fam == "big8":
        return 384 if (i + k) % 2 == 0 else -320
    if fam == "bigf":
        return 128
    if fam == "bigm":
        return -128 if (i + k) % 4 == 3 else 127
    return 127 if (i + k) % 2 == 0 else -128


def W8(fam, j, k):
    if fam == "onehot":
        return ((j + 2 * k) % 5) - 2
    if fam == "alt":
        return (j % 3) - 1
    if fam == "ramp":
        return ((j + k) % 3) - 1
    if fam == "big8":
        return -384 if (j + k) % 3 == 0 else 256
    if fam == "bigf":
        return 127 - (j % 3)
    if fam == "bigm":
        return -256 if (j + k) % 5 == 0 else 384
    return -128 if (j + k) % 3 == 0 else 127


def W(c, j, k):
    if c["wq"] in ("qint4", "qint2"):
        lo, hi = (-7, 8) if c["wq"] == "qint4" else (-1, 2)
        if k == 0:
            return lo
        if k == 1:
            return hi
        return max(lo, min(hi, W8(c["fam"], j, k)))
    return W8(c["fam"], j, k)


def batch_shape(c):
    if c["brank"] == 1:
        return []
    if c["brank"] == 2:
        return [c["rows"]]
    if (c["rows"] + c["K"]) % 3 == 0:
        return [c["rows"], 1]
    return [2, c["rows"] // 2] if c["rows"] % 2 == 0 else [1, c["rows"]]


def build_batched_other(c, b0):
    """the second operand of torch.bmm: b0 copies of the weight matrix transposed, [b0, K, N], quantized as ONE rank-3 tensor
    (per-tensor, or per-axis along the last dimension)"""
    dtype = FMT[c["dtype"]]
    K, N = c["K"], c["N"]
    w = torch.tensor([[W(c, j, k) for k in range(K)] for j in range(N)], dtype=torch.float64)
    sc = torch.tensor([2.0 ** ew(c, j) for j in range(N)], dtype=torch.float64).reshape(N, 1)
    w3 = (w * sc).to(dtype).t().unsqueeze(0).repeat(b0, 1, 1).contiguous()
    wq = qtypes[c["wq"]]
    if c["waxis"] == "per-axis" and N > 1:
        return SymmetricQuantizer.apply(w3, wq, -1, sc.to(dtype).reshape(1, 1, N))
    return quantize_activation(w3, wq, torch.tensor(2.0 ** ew(c, 0), dtype=dtype))


def build(c, contiguous=True):
    dtype = FMT[c["dtype"]]
    rows, K, N = c["rows"], c["K"], c["N"]
    a = torch.tensor([[A(c["fam"], i, k, K) for k in range(K)] for i in range(rows)], dtype=torch.float64)
    x = (a * 2.0 ** EA).to(dtype).reshape(batch_shape(c) + [K])
    if not contiguous and x.ndim == 3:
        x = x.transpose(0, 1).contiguous().transpose(0, 1)
    if c["act"] != "float":
        x = quantize_activation(x, qtypes[c["act"]], torch.tensor(2.0 ** EA, dtype=dtype))
    w = torch.tensor([[W(c, j, k) for k in range(K)] for j in range(N)], dtype=torch.float64)
    sc = torch.tensor([2.0 ** ew(c, j) for j in range(N)], dtype=torch.float64).reshape(N, 1)
    wf = (w * sc).to(dtype)
    wq = qtypes[c["wq"]]
    if wq.bits == 8:
        if c["waxis"] == "per-axis" and N > 1:
            qw = SymmetricQuantizer.apply(wf, wq, 0, sc.to(dtype))
        else:
            qw = quantize_activation(wf, wq, torch.tensor(2.0 ** ew(c, 0), dtype=dtype))
    else:
        qw = quantize_weight(wf, wq, 0, None)
    bias = None
    if c["bias"]:
        bias = (torch.tensor([(j % 5) - 2 for j in range(N)], dtype=torch.float64) * 2.0 ** EB).to(dtype)
    return x, qw, bias


def low_exp(v):
    if v == 0:
        return None
    num, den = v.numerator, v.denominator
    e = -(den.bit_length() - 1)
    while num % 2 == 0:
        num //= 2
        e += 1
    return e


def one_call(c, kind, contiguous):
    x, qw, bias = build(c, contiguous)
    seen = []
    o_int, o_pack = torch._int_mm, torch._weight_int8pack_mm

    def w_int(*a, **k):
        seen.append("int_mm")
        return o_int(*a, **k)

    def w_pack(*a, **k):
        seen.append("int8pack")
        return o_pack(*a, **k)
    torch._int_mm, torch._weight_int8pack_mm = w_int, w_pack
    try:
        with torch.no_grad():
            if kind == "linear":
                out = F.linear(x, qw, bias)
            elif kind == "bmm":
                out = torch.bmm(x, build_batched_other(c, x.shape[0]))
            elif kind == "bmm_plain":       # quantized activations x a plain batch of matrices (the exact dequantized weights)
                out = torch.bmm(x, build_batched_other(c, x.shape[0]).dequantize())
            else:
                out = torch.matmul(x, qw.t())
    finally:
        torch._int_mm, torch._weight_int8pack_mm = o_int, o_pack
    if isinstance(out, QTensor):
        out = out.dequantize()
    vals = to_fractions(out)
    base = min(EA + min(ew(c, j) for j in range(c["N"])), EB)
    es = [low_exp(v) for v in vals if not isinstance(v, str) and v != 0]
    E = min(es + [base])
    outl = []
    for v in vals:
        if isinstance(v, str):
            outl.append({"s": 2, "m": []})
        else:
            q = v / (Fraction(2) ** E if E >= 0 else Fraction(1, 2 ** -E))
            n = int(q)
            outl.append({"s": (n > 0) - (n < 0), "m": limbs(abs(n))})
    wscale_ok = True
    if qtypes[c["wq"]].bits != 8:
        want = [Fraction(2) ** ew(c, j) if ew(c, j) >= 0 else Fraction(1, 2 ** -ew(c, j)) for j in range(c["N"])]
        wscale_ok = to_fractions(qw._scale) == want
    if c["wq"] in ("qint4", "qint2"):
        route = "float_matmul"
    else:
        route = seen[0] if seen else "default"
    return {"E": E, "out": outl, "out_dtype": FMT_NAME.get(out.dtype, str(out.dtype)), "out_shape": list(out.shape),
            "route_seen": route, "lowbit_scale_exact": wscale_ok}


def _job(job):
    c, kind, contiguous, route = job
    r = run_isolated(one_call, c, kind, contiguous)
    ev = {"act": "Call", "kind": kind, "cfg": c, "contiguous": contiguous, "tlc_route": route}
    if "ok" in r:
        ev.update(r["ok"])
        ev["outcome"] = "value"
    else:
        ev.update({"outcome": r.get("exc") or ("crash:%s" % r.get("crash")), "msg": r.get("msg", "")[:200], "E": 0, "out": [],
                   "out_dtype": "none", "out_shape": [], "route_seen": "unknown", "lowbit_scale_exact": True})
    return ev


def main():
    req = json.load(open(sys.argv[1]))
    traces = []
    # warm up (one-time initialisations before forking)
    for warm in ({"dtype": "float32", "act": "qint8", "wq": "qint8", "waxis": "per-axis", "rows": 2, "K": 4, "N": 2, "brank": 2, "bias": True, "fam": "ramp"},
                 {"dtype": "float32", "act": "float", "wq": "qint4", "waxis": "per-axis", "rows": 2, "K": 4, "N": 2, "brank": 2, "bias": True, "fam": "ramp"}):
        try:
            one_call(warm, "linear", True)
        except Exception:  # noqa: BLE001  (the isolated calls below report it)
            pass
    jobs = []
    for case in req["cases"]:
        c = case["cfg"]
        variants = [("linear", True)]
        if c["brank"] == 3:
            variants.append(("linear", False))
        if c["act"] != "float" and c["wq"] not in ("qint4", "qint2") and c["brank"] >= 2:
            variants.append(("matmul", True))
        if c["wq"] not in ("qint4", "qint2") and c["brank"] == 3:
            if c["act"] != "float" and c["N"] % 2 == 0:
                variants.append(("bmm_plain", True))
            variants.append(("bmm", True))       # aten.bmm: both operands rank 3 (float or quantized activations x quantized batch of matrices)
        for kind, contiguous in variants:
            jobs.append((c, kind, contiguous, case["route"]))
    import multiprocessing as mp
    with mp.get_context("fork").Pool(req.get("procs", 12)) as pool:
        results = pool.map(_job, jobs, chunksize=16)
    traces = [[ev] for ev in results]
    json.dump({"traces": traces}, open(sys.argv[2], "w"))


if __name__ == "__main__":
    main()
