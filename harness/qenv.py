"""Import quanto from the tree under verification (VERIF_REPO, default /repo).

Nothing is ever written below the repository: the C++ extension build directory is
redirected to a cache keyed by the hash of the extension sources.
"""
import hashlib
import os
import sys

REPO = os.environ.get("VERIF_REPO", "/repo")
ROOT = os.path.dirname(os.path.dirname(os.path.abspath(__file__)))
CACHE = os.environ.get("VERIF_CACHE", os.path.join(ROOT, ".cache"))

os.environ.setdefault("OMP_NUM_THREADS", "1")
os.environ.setdefault("MKL_NUM_THREADS", "1")
os.environ["PATH"] = "/venv/bin:" + os.environ.get("PATH", "")
os.environ.setdefault("PYTHONHASHSEED", "0")
if os.environ.get("VERIF_HOOKS", "1") == "1":
    os.environ.setdefault("HUGGINGFACE_QUANTO_VERIF", "1")

if REPO not in sys.path:
    sys.path.insert(0, REPO)

import warnings  # noqa: E402

warnings.filterwarnings("ignore")

import torch  # noqa: E402

torch.set_num_threads(1)
torch.set_grad_enabled(True)

import optimum.quanto as quanto  # noqa: E402

assert os.path.realpath(quanto.__file__).startswith(os.path.realpath(REPO)), (quanto.__file__, REPO)


def ext_source_hash():
    d = os.path.join(REPO, "optimum/quanto/library/ext/cpp")
    h = hashlib.sha256()
    for name in sorted(os.listdir(d)):
        p = os.path.join(d, name)
        if os.path.isfile(p) and name.endswith((".cpp", ".h", ".py")):
            h.update(name.encode())
            h.update(open(p, "rb").read())
    h.update(torch.__version__.encode())
    return h.hexdigest()[:16]


def redirect_ext_build():
    """Point the C++ extension at a cache directory outside the repository."""
    from optimum.quanto.library.ext.cpp import ext

    d = os.path.join(CACHE, "ext-" + ext_source_hash())
    os.makedirs(d, exist_ok=True)
    ext.build_directory = d
    return ext, d


def prune_cache(keep=4):
    try:
        ds = sorted((os.path.join(CACHE, d) for d in os.listdir(CACHE) if d.startswith("ext-")), key=os.path.getmtime)
    except FileNotFoundError:
        return
    import shutil
    for d in ds[:-keep]:
        shutil.rmtree(d, ignore_errors=True)


def ensure_ext():
    """Build (or load) the C++ unpack kernel. Returns (ok, message)."""
    ext, d = redirect_ext_build()
    prune_cache()
    try:
        ext.lib  # noqa: B018
        return True, d
    except Exception as e:  # build can legitimately fail (no compiler): quanto falls back
        return False, repr(e)[:300]


# Always redirect before anything can trigger a build; load the kernel once in this process so
# that forked children inherit it (VERIF_NO_EXT=1 leaves the python fallback in charge).
redirect_ext_build()
if os.environ.get("VERIF_NO_EXT") != "1":
    EXT_OK, EXT_MSG = ensure_ext()
else:
    EXT_OK, EXT_MSG = False, "disabled"
