"""Wide-domain drivers for the numeric properties (C01, C02, C03, C16): run the real
quantizers / optimizers on arbitrary values and record events for Trace_QNum with every
number as an exact big integer at a per-event binary exponent."""
import json
import math
import random
import sys
from fractions import Fraction

import qenv  # noqa: F401
import torch
from exact import FMT, FMT_NAME, codes_of, limbs, to_fractions
from total import observable, raised_event, total
from optimum.quanto import QTensor, absmax_scale, qtypes, quantize_activation, quantize_weight
from optimum.quanto.tensor.optimizers import AbsmaxOptimizer, MaxOptimizer
from optimum.quanto.tensor.quantizers import AffineQuantizer, SymmetricQuantizer

FE = {"qint8": -2, "qfloat8_e4m3fn": -10, "qfloat8_e5m2": -17}
ETA = {"float32": -149, "float16": -24, "bfloat16": -133}
EMIN = {"float32": -126, "float16": -14, "bfloat16": -126}
PB = {"float32": 24, "float16": 11, "bfloat16": 8}
EMAXX = {"float32": 127, "float16": 15, "bfloat16": 127}


def low_exp(v):
    """exponent of the lowest set bit of a dyadic rational (None for 0)"""
    if v == 0:
        return None
    num, den = v.numerator, v.denominator
    e = -(den.bit_length() - 1)
    while num % 2 == 0:
        num //= 2
        e += 1
    return e


def common_exp(vals):
    es = [low_exp(v) for v in vals if not isinstance(v, str) and v != 0]
    return min(es) if es else 0


def big(v, E):
    if isinstance(v, str):
        return {"s": 2, "m": []}
    q = v / (Fraction(2) ** E if E >= 0 else Fraction(1, 2 ** -E))
    assert q.denominator == 1, (v, E)
    n = int(q)
    return {"s": (n > 0) - (n < 0), "m": limbs(abs(n))}


def maxfinite(fmt):
    p = PB[fmt]
    return Fraction((2 ** p - 1)) * Fraction(2) ** (EMAXX[fmt] - p + 1)


# ---------------------------------------------------------------------------------------------
@total("SymW", describe=lambda x, qt, scale, axis, route, tag=None: {"qt": qt, "fmt": FMT_NAME.get(x.dtype), "shape": list(x.shape), "axis": "none" if axis is None else axis, "route": route, "tag": tag})
def sym_event(x, qt, scale, axis, route, tag=None):
    """x: float tensor; scale: 0-dim or per-axis tensor (same dtype).
    tag "alias": the call is made with quanto's `qfloat8` (its name for float8_e4m3fn), judged on the e4m3fn grid."""
    fmt = FMT_NAME[x.dtype]
    qtype = qtypes["qfloat8"] if (tag == "alias" and qt == "qfloat8_e4m3fn") else qtypes[qt]
    if route == "activation":
        q = quantize_activation(x, qtype, scale)
    else:
        q = SymmetricQuantizer.apply(x, qtype, axis, scale)
    dq = q.dequantize()
    if route == "activation":
        q2 = quantize_activation(dq, qtype, scale)
    else:
        q2 = SymmetricQuantizer.apply(dq, qtype, axis, scale)
    xs = to_fractions(x)
    dqs = to_fractions(dq)
    sc = to_fractions(scale)
    fe = FE[qt]
    sfs = [s * (Fraction(2) ** fe if fe >= 0 else Fraction(1, 2 ** -fe)) for s in sc]
    E = common_exp(xs + dqs + sfs)
    if scale.ndim == 0 or scale.numel() == 1:
        sidx = [1] * len(xs)
    else:
        full = torch.arange(scale.numel()).reshape(scale.shape).expand(x.shape).reshape(-1).tolist()
        sidx = [i + 1 for i in full]
    mf = maxfinite(fmt)
    ev = {"act": "SymW", "qt": qt, "fmt": fmt, "E": E, "eta_shift": ETA[fmt] - E, "nmin_shift": EMIN[fmt] - E,
          "maxfin": big(mf, E)["m"] if E <= low_exp(mf) and low_exp(mf) - E < 600 else [],
          "maxfin_big": not (E <= low_exp(mf) and low_exp(mf) - E < 600),
          "sf": [big(s, E)["m"] for s in sfs], "sidx": sidx,
          "x": [big(v, E) for v in xs], "dq": [big(v, E) for v in dqs],
          "code": codes_of(q._data, qt), "code2": codes_of(q2._data, qt),
          "shape": list(x.shape), "axis": "none" if axis is None else axis, "route": route,
          "out_shape": list(q.shape), "out_dtype": FMT_NAME.get(q.dtype, str(q.dtype)),
          "out_qtype": qt if (q.qtype is qtype and q.qtype.name == "qfloat8" and qt == "qfloat8_e4m3fn") else q.qtype.name,
          "nonfinite_dq": sum(1 for v in dqs if isinstance(v, str)), "nonfinite_judged_by_c16": False}
    if tag:
        ev["tag"] = tag
    return ev


def all_half_values(dtype, step=1, offset=0):
    bits = torch.arange(offset, 65536, step, dtype=torch.int32).to(torch.int16)
    vals = bits.view(dtype)
    return vals[torch.isfinite(vals.to(torch.float32))]


def scales_for(dtype, rnd):
    base = [1.0, 0.037109375 * 1.37, 3.0e-5, 2.0 ** -17 * 1.03, 2896.0, 0.0078125]
    return [torch.tensor(s, dtype=dtype) for s in base] + [torch.tensor(rnd.uniform(0.001, 20.0), dtype=dtype)]


def drive_sym_wide(req):
    rnd = random.Random(req.get("seed", 0))
    torch.manual_seed(req.get("seed", 0))
    traces = []
    bsz = req.get("batch", 192)
    step = req.get("half_step", 16)
    qts = ["qint8", "qfloat8_e4m3fn", "qfloat8_e5m2"]
    for fmt in ("float16", "bfloat16"):
        dtype = FMT[fmt]
        vals = all_half_values(dtype, step, rnd.randrange(step))
        for qt in qts:
            for si, sc in enumerate(scales_for(dtype, rnd)[: req.get("nscales", 3)]):
                if not (torch.isfinite(sc) and sc > 0):
                    continue
                for i in range(0, vals.numel(), bsz):
                    x = vals[i:i + bsz].clone()
                    traces.append([sym_event(x, qt, sc, None, "activation" if (i // bsz) % 2 else "quantizer", tag="half-sweep")])
    # float32: boundary-directed + random
    for qt in qts:
        qtype = qtypes[qt]
        for sc in [torch.tensor(0.0123, dtype=torch.float32), torch.tensor(1.7, dtype=torch.float32), torch.tensor(1e-40, dtype=torch.float32)]:
            pts = []
            if qt == "qint8":
                grid = torch.arange(-129, 130, dtype=torch.float32)
            else:
                grid = torch.arange(256, dtype=torch.int32).to(torch.uint8).view(qtype.dtype).to(torch.float32)
                grid = grid[torch.isfinite(grid)]
                grid = torch.sort(grid).values
            mids = (grid[1:] + grid[:-1]) / 2 * sc
            for m in mids.tolist():
                t = torch.tensor(m, dtype=torch.float32)
                pts += [t, torch.nextafter(t, torch.tensor(math.inf)), torch.nextafter(t, torch.tensor(-math.inf))]
            top = grid.max() * sc
            pts += [top, top * 1.0000001, top * 1.5, -top * 1.0000001, top * 1e20, torch.tensor(1e-40), torch.tensor(3.0e38)]
            x = torch.stack([p.reshape(()) for p in pts]).to(torch.float32)
            x = torch.cat([x, torch.randn(req.get("random", 200)) * sc * float(grid.max()) * 0.5])
            for i in range(0, x.numel(), bsz):
                traces.append([sym_event(x[i:i + bsz].clone(), qt, sc, None, "activation", tag="f32-boundary")])
    # per-axis scales, ranks 2..4, strided
    for fmt in ("float32", "float16", "bfloat16"):
        dtype = FMT[fmt]
        for qt in qts:
            for shape, axis in [((4, 6), 0), ((4, 6), -1), ((3, 2, 5), 0), ((3, 2, 5), -1), ((2, 3, 2, 4), -1)]:
                x = (torch.randn(shape) * 3).to(dtype)
                if rnd.random() < 0.5:
                    x = x.transpose(0, -1).contiguous().transpose(0, -1)
                n = shape[0] if axis == 0 else shape[-1]
                sshape = [1] * len(shape)
                sshape[0 if axis == 0 else -1] = n
                sc = torch.tensor([rnd.uniform(0.003, 0.2) * (4 ** i) for i in range(n)]).reshape(sshape).to(dtype)
                traces.append([sym_event(x, qt, sc, axis, "quantizer", tag="per-axis")])
    # quanto's `qfloat8` (its default float8 type, an own qtype object for float8_e4m3fn), both routes, per-tensor and per-axis
    for fmt in ("float32", "float16", "bfloat16"):
        dtype = FMT[fmt]
        x = torch.cat([(torch.randn(96) * 2.0).to(dtype), torch.tensor([0.0, 0.4375, 447.9, 448.0, 500.0, -1000.0, 0.0009765625, 0.001953125 * 0.75], dtype=dtype)])
        for route in ("activation", "quantizer"):
            traces.append([sym_event(x, "qfloat8_e4m3fn", torch.tensor(1.0, dtype=dtype), None, route, tag="alias")])
            traces.append([sym_event(x, "qfloat8_e4m3fn", torch.tensor(0.0123, dtype=dtype), None, route, tag="alias")])
        x2 = (torch.randn(4, 6) * 3).to(dtype)
        traces.append([sym_event(x2, "qfloat8_e4m3fn", torch.tensor([0.01, 0.04, 0.16, 0.64], dtype=dtype).reshape(4, 1), 0, "quantizer", tag="alias")])
    return traces


# ---------------------------------------------------------------------------------------------
def abstract_groups(shape, axis, gs):
    """flat positions (row-major) of each abstract group: (kept-axis index, chunk of gs among the remaining dims)."""
    n = 1
    for d in shape:
        n *= d
    groups = {}
    if len(shape) == 1 and gs is None:
        # a vector has no "other" dimensions: the reduction over them is a reduction over
        # everything, i.e. one scale for the whole vector (DESIGN.md section 9, interpretation)
        return [list(range(n))]
    a_dim = shape[0] if axis == 0 else shape[-1]
    rem = n // a_dim
    g = gs if gs is not None else rem
    for p in range(n):
        if axis == 0:
            ai, ri = divmod(p, rem)
        else:
            ri, ai = divmod(p, a_dim)
        groups.setdefault((ai, ri // g), []).append(p)
    return [groups[k] for k in sorted(groups)]


@total("AffW", describe=lambda x, bits, axis, gs, tag=None, optimizer=None: {"bits": bits, "fmt": FMT_NAME.get(x.dtype), "shape": list(x.shape), "axis": axis, "gs": gs if gs is not None else "none", "tag": tag})
def aff_event(x, bits, axis, gs, tag=None, optimizer=None):
    fmt = FMT_NAME[x.dtype]
    qtype = qtypes["qint%d" % bits]
    q = quantize_weight(x, qtype, axis, gs, optimizer) if optimizer else quantize_weight(x, qtype, axis, gs)
    dq = q.dequantize()
    q2 = AffineQuantizer.apply(dq, qtype, axis, gs, q._scale, q._zeropoint)
    xs = to_fractions(x)
    dqs = to_fractions(dq)
    E = common_exp(xs + dqs)
    groups = []
    if list(dq.shape) == list(x.shape):
        for g in abstract_groups(list(x.shape), axis, gs):
            groups.append({"x": [big(xs[p], E) for p in g], "dq": [big(dqs[p], E) for p in g]})
    ev = {"act": "AffW", "bits": bits, "fmt": fmt, "E": E, "eta_shift": ETA[fmt] - E, "nmin_shift": EMIN[fmt] - E, "axis": axis,
          "gs": gs if gs is not None else "none", "groups": groups, "shape": list(x.shape),
          "out_shape": list(dq.shape), "out_dtype": FMT_NAME.get(dq.dtype, str(dq.dtype)),
          "payload_equal": bool(torch.equal(q._data._data, q2._data._data)),
          "zp_range": [int(q._zeropoint.min()), int(q._zeropoint.max())],
          "nonfinite_dq": sum(1 for v in dqs if isinstance(v, str)), "nonfinite_judged_by_c16": False}
    if tag:
        ev["tag"] = tag
    return ev


ROW_CLASSES = ["noise", "one-sided", "offset", "constant", "zero", "tiny", "huge", "mixed", "single"]


def make_row(cls, n, rnd, dtype):
    fin = torch.finfo(dtype)
    if cls == "noise":
        v = torch.randn(n)
    elif cls == "one-sided":
        v = torch.rand(n) * rnd.uniform(0.1, 5) + rnd.uniform(0, 0.5)
        v = v * rnd.choice([-1, 1])
    elif cls == "offset":
        v = rnd.uniform(5, 50) * rnd.choice([-1, 1]) + torch.randn(n) * rnd.uniform(0.01, 0.5)
    elif cls == "constant":
        v = torch.full((n,), rnd.uniform(0.1, 9) * rnd.choice([-1, 1]))
    elif cls == "zero":
        v = torch.zeros(n)
    elif cls == "tiny":
        v = torch.randn(n) * float(fin.tiny) * 4
    elif cls == "huge":
        v = torch.randn(n).clamp(-1, 1) * float(fin.max) * 0.4
    elif cls == "underflow":
        # a few units of the smallest subnormal: absmax / qmax is not representable (it rounds to zero)
        eta = 2.0 ** ETA[FMT_NAME[dtype]]
        v = torch.tensor([float(rnd.randint(-40, 40)) for _ in range(n)], dtype=torch.float64) * eta
        if not bool((v != 0).any()):
            v[0] = 3 * eta
        return v.to(dtype)
    elif cls == "loguniform":
        # any binade of the format, away from the two ends: the properties are scale invariant
        lo, hi = math.log2(float(fin.tiny)) + 6, math.log2(float(fin.max)) - 2
        v = torch.randn(n).clamp(-2, 2) / 2 * 2.0 ** rnd.uniform(lo, hi)
        if rnd.random() < 0.3:
            v = -v.abs() if rnd.random() < 0.5 else v.abs()
    elif cls == "mixed":
        v = torch.randn(n) * torch.tensor([10.0 ** rnd.randint(-3, 2) for _ in range(n)])
    elif cls == "near-max":
        v = (torch.rand(n) * 0.5 + 0.5) * float(fin.max) * rnd.choice([-1, 1])
        v[rnd.randrange(n)] = float(fin.max) * rnd.choice([-1, 1])
    elif cls == "mixed-max":
        v = torch.randn(n).clamp(-1, 1) * float(fin.max)
        v[0] = float(fin.max)
        v[-1] = -float(fin.max)
    elif cls == "subnormal":
        v = torch.randn(n) * float(fin.tiny) / 8
    else:
        v = torch.zeros(n)
        v[rnd.randrange(n)] = rnd.uniform(-3, 3)
    return v.to(dtype)


def class_tensor(shape, axis, gs, rnd, dtype, classes):
    """assemble a tensor whose abstract groups belong to the given classes (cyclically)"""
    n = 1
    for d in shape:
        n *= d
    flat = torch.zeros(n, dtype=dtype)
    used = []
    for gi, g in enumerate(abstract_groups(shape, axis, gs)):
        cls = classes[gi % len(classes)]
        used.append(cls)
        flat[torch.tensor(g)] = make_row(cls, len(g), rnd, dtype)
    return flat.reshape(shape), used


def divisors(n):
    return [d for d in range(1, n + 1) if n % d == 0]


def drive_aff(req):
    rnd = random.Random(req.get("seed", 0))
    torch.manual_seed(req.get("seed", 0))
    traces = []
    classes_all = req.get("classes", ["noise", "one-sided", "offset", "constant", "zero", "mixed", "single", "huge", "loguniform"])
    shapes = [(8,), (4, 8), (8, 4), (2, 3, 4), (2, 2, 2, 4), (6, 12)]
    reps = req.get("reps", 1)
    for fmt in ("float32", "float16", "bfloat16"):
        dtype = FMT[fmt]
        for bits in (2, 4):
            for shape in shapes:
                for axis in (0, -1):
                    if len(shape) == 1 and axis == -1:
                        continue
                    n = 1
                    for d in shape:
                        n *= d
                    rem = n // (shape[0] if axis == 0 else shape[-1])
                    for gs in [None] + [d for d in divisors(rem) if d > 1 and d < rem][: req.get("max_gs", 3)]:
                        for _ in range(reps):
                            k = rnd.randrange(len(classes_all))
                            cl = classes_all[k:] + classes_all[:k]
                            x, used = class_tensor(list(shape), axis, gs, rnd, dtype, cl)
                            if rnd.random() < 0.3 and x.ndim >= 2:
                                x = x.transpose(0, -1).contiguous().transpose(0, -1)
                            ev = aff_event(x, bits, axis, gs, tag=",".join(sorted(set(used))))
                            traces.append([ev])
    return traces


# ---------------------------------------------------------------------------------------------
@total("RangeW", describe=lambda x, qt, axis, gs, which: {"qt": qt, "fmt": FMT_NAME.get(x.dtype), "shape": list(x.shape), "axis": "none" if axis is None else axis, "gs": gs if gs is not None else "none", "which": which})
def range_event(x, qt, axis, gs, which):
    """one optimizer call. which: absmax_opt | max_opt | absmax_scale"""
    fmt = FMT_NAME[x.dtype]
    qtype = qtypes[qt]
    xs = to_fractions(x)
    zp = None
    if which == "max_opt":
        scale, zp = MaxOptimizer()(x, qtype.bits, axis, gs)
        family = "aff"
        groups = abstract_groups(list(x.shape), axis, gs)
    elif which == "absmax_opt":
        scale = AbsmaxOptimizer()(x, qtype.bits, axis)
        family = "sym"
        groups = [list(range(len(xs)))] if axis is None else abstract_groups(list(x.shape), axis, None)
    else:
        scale = absmax_scale(x, qtype, axis)
        family = "sym"
        groups = [list(range(len(xs)))] if axis is None else abstract_groups(list(x.shape), axis, None)
    sc = to_fractions(scale)
    E = common_exp(xs + sc)
    rows = []
    if len(sc) == len(groups):
        zl = [int(z) for z in zp.reshape(-1).tolist()] if zp is not None else [0] * len(sc)
        for g, s, z in zip(groups, sc, zl):
            rows.append({"x": [big(xs[p], E) for p in g], "scale": big(s, E), "zp": z})
    finfo_max = {"qint8": (127, 0), "qfloat8_e4m3fn": (7, 6), "qfloat8_e5m2": (7, 13), "qfloat8": (7, 6)}
    ev = {"act": "RangeW", "family": family, "which": which, "qt": qt, "fmt": fmt, "E": E, "eta_shift": ETA[fmt] - E,
          "bits": qtype.bits, "axis": "none" if axis is None else axis, "gs": gs if gs is not None else "none",
          "rows": rows, "scale_dtype": FMT_NAME.get(scale.dtype, str(scale.dtype)), "scale_count": len(sc),
          "scale_shape": list(scale.shape), "shape": list(x.shape)}
    if family == "sym":
        ev["smax_m"], ev["smax_sh"] = finfo_max[qt]
    else:
        ev["smax_m"], ev["smax_sh"] = 0, 0
        ev["zp"] = [int(z) for z in zp.reshape(-1).tolist()]
    return ev


def quant_obs(x, qt, axis, gs):
    """observation of a full quantize_weight call, per abstract group: codes (via dequantized values
    are avoided - raw codes), scale, zero-point as exact numbers"""
    qtype = qtypes[qt]
    q = quantize_weight(x, qtype, axis, gs) if qtype.bits != 8 else quantize_weight(x, qtype, axis)
    return q


def row_obs(x, qt, axis, gs):
    """per kept-axis row/group observation used by Pair events: exact scale, zero-point and the
    dequantized values (exact) of the group."""
    qtype = qtypes[qt]
    xs_shape = list(x.shape)
    q = quantize_weight(x, qtype, axis, gs) if qtype.bits != 8 else quantize_weight(x, qtype, axis)
    dq = to_fractions(q.dequantize())
    sc = to_fractions(q._scale)
    zp = [int(z) for z in q._zeropoint.reshape(-1).tolist()] if hasattr(q, "_zeropoint") else None
    if qtype.bits == 8:
        groups = abstract_groups(xs_shape, axis, None) if q.axis is not None else [list(range(x.numel()))]
        codes = codes_of(q._data, qt)
    else:
        groups = abstract_groups(xs_shape, axis, gs)
        codes = None
    obs = []
    for gi, g in enumerate(groups):
        o = {"dq": [str(dq[p]) for p in g], "scale": str(sc[gi]) if len(sc) == len(groups) else str(sc)}
        if zp is not None and len(zp) == len(groups):
            o["zp"] = zp[gi]
        if codes is not None:
            o["codes"] = [codes[p] for p in g]
        obs.append(o)
    return obs, groups


def drive_range(req):
    rnd = random.Random(req.get("seed", 0))
    torch.manual_seed(req.get("seed", 0))
    traces = []
    shapes = [(7,), (4, 6), (6, 4), (5, 5), (2, 3, 4), (2, 2, 3, 2)]
    classes = ["noise", "one-sided", "offset", "constant", "zero", "mixed", "single", "tiny", "huge", "loguniform", "underflow"]
    for fmt in ("float32", "float16", "bfloat16"):
        dtype = FMT[fmt]
        for shape in shapes:
            for rep in range(req.get("reps", 1)):
                for axis in (None, 0, -1):
                    if axis is not None and len(shape) == 1:
                        continue
                    k = rnd.randrange(len(classes))
                    x, _ = class_tensor(list(shape), 0 if axis is None else axis, None, rnd, dtype, classes[k:] + classes[:k])
                    for qt in ("qint8", "qfloat8_e4m3fn", "qfloat8_e5m2"):
                        traces.append([range_event(x, qt, axis, None, "absmax_opt")])
                        traces.append([range_event(x, qt, axis, None, "absmax_scale")])
                    if axis is not None:
                        n = x.numel() // (shape[0] if axis == 0 else shape[-1])
                        for gs in [None] + [d for d in divisors(n) if 1 < d < n][:2]:
                            k = rnd.randrange(len(classes))
                            xg, _ = class_tensor(list(shape), axis, gs, rnd, dtype, classes[k:] + classes[:k])
                            for qt in ("qint2", "qint4"):
                                traces.append([range_event(xg, qt, axis, gs, "max_opt")])
    # TLC-generated tensors (QRange): integer-valued, distinct ranges per index
    for c in req.get("tlc_cases", []):
        axis = None if c["axis"] == 99 else c["axis"]
        for fmt in ("float32", "float16", "bfloat16"):
            x = torch.tensor(c["t"], dtype=torch.float64).reshape(c["shape"]).to(FMT[fmt]) * 0.25
            if c["which"] == "max_opt":
                for qt in ("qint2", "qint4"):
                    traces.append([range_event(x, qt, axis, None, "max_opt")])
            elif c["which"] == "quantize_weight8":
                if axis is None:
                    continue
                for qt in ("qint8", "qfloat8_e4m3fn"):
                    try:
                        q = quantize_weight(x, qtypes[qt], axis)
                    except Exception as e:  # noqa: BLE001
                        if not observable(e):
                            raise
                        traces.append([raised_event("RangeW", e, qt=qt, fmt=fmt, shape=list(x.shape), axis=axis, which="quantize_weight8")])
                        continue
                    ev = range_event(x, qt, axis if q.axis is not None else None, None, "absmax_opt")
                    if ev["act"] == "Raised":
                        traces.append([ev])
                        continue
                    ev["observed_axis"] = "none" if q.axis is None else q.axis
                    # the scale actually used by quantize_weight
                    sc = to_fractions(q._scale)
                    if len(sc) == len(ev["rows"]):
                        for rw, s_ in zip(ev["rows"], sc):
                            rw["scale"] = big(s_, min(ev["E"], common_exp([s_])))  if common_exp([s_]) >= ev["E"] else rw["scale"]
                    ev["scale_count"] = len(sc)
                    ev["which"] = "quantize_weight8"
                    traces.append([ev])
            else:
                for qt in ("qint8", "qfloat8_e4m3fn", "qfloat8_e5m2"):
                    traces.append([range_event(x, qt, axis, None, c["which"])])
    # metamorphic pairs: locality (others replaced / scaled) and row permutation
    for fmt in ("float32", "float16", "bfloat16"):
        dtype = FMT[fmt]
        for shape in [(4, 6), (6, 4), (5, 5), (3, 2, 4)]:
            for axis in (0, -1):
                for qt in ("qint8", "qfloat8_e4m3fn", "qfloat8_e5m2", "qint4", "qint2"):
                    for rel in ("others-replaced", "others-scaled", "rows-permuted"):
                        x = (torch.randn(shape) * torch.tensor([rnd.uniform(0.01, 30) for _ in range(shape[0] if axis == 0 else shape[-1])]).reshape(
                            [-1] + [1] * (len(shape) - 1) if axis == 0 else [1] * (len(shape) - 1) + [-1])).to(dtype)
                        na = shape[0] if axis == 0 else shape[-1]
                        keep = rnd.randrange(na)
                        xm = x.movedim(0 if axis == 0 else -1, 0).clone()
                        if rel == "others-replaced":
                            new = (torch.randn(xm.shape) * rnd.uniform(0.001, 100)).to(dtype)
                            new[keep] = xm[keep]
                            perm = list(range(na))
                        elif rel == "others-scaled":
                            new = (xm * 2.0 ** rnd.choice([-3, -1, 2, 4])).to(dtype)
                            new[keep] = xm[keep]
                            perm = list(range(na))
                        else:
                            perm = list(range(na))
                            rnd.shuffle(perm)
                            new = xm[torch.tensor(perm)]
                        y = new.movedim(0, 0 if axis == 0 else -1).contiguous()
                        bits = qtypes[qt].bits
                        n = x.numel() // na
                        gs = None if bits == 8 else rnd.choice([None] + [d for d in divisors(n) if 1 < d < n])
                        try:
                            oa, ga = row_obs(x, qt, axis, gs)
                            ob, gb = row_obs(y, qt, axis, gs)
                        except Exception as e:  # noqa: BLE001
                            if not observable(e):
                                raise
                            traces.append([raised_event("Pair", e, relation=rel, qt=qt, fmt=fmt, axis=axis, shape=list(shape), gs=gs if gs else "none")])
                            continue
                        per = len(oa) // na        # groups per axis index
                        if rel == "rows-permuted":
                            pairs = [(perm[i], i) for i in range(na)]     # row perm[i] of x is row i of y
                        else:
                            pairs = [(keep, keep)]
                        obs_a, obs_b = [], []
                        for ra, rb in pairs:
                            for j in range(per):
                                obs_a.append(oa[ra * per + j])
                                obs_b.append(ob[rb * per + j])
                        traces.append([{"act": "Pair", "relation": rel, "qt": qt, "fmt": fmt, "axis": axis, "shape": list(shape),
                                        "gs": gs if gs else "none", "keep": [[a, b] for a, b in pairs], "obs_a": obs_a, "obs_b": obs_b}])
    return traces


@total("Finite", as_list=True, describe=lambda x, qt, axis, gs, used_classes, groups: {"qt": qt, "fmt": FMT_NAME.get(x.dtype), "shape": list(x.shape), "axis": axis, "gs": gs if gs is not None else "none", "classes": list(used_classes)})
def finite_events(x, qt, axis, gs, used_classes, groups):
    """quantize_weight with the default optimizer on a degenerate tensor: [Finite, SymW|AffW]"""
    qtype = qtypes[qt]
    fmt = FMT_NAME[x.dtype]
    q = quantize_weight(x, qtype, axis, gs) if qtype.bits != 8 else quantize_weight(x, qtype, axis)
    dq = q.dequantize()
    fin = torch.isfinite(dq.to(torch.float32)).reshape(-1)
    flat = x.reshape(-1)
    zero_rows = [g for g in groups if bool((flat[torch.tensor(g)] == 0).all())]
    top = float(torch.finfo(x.dtype).max)
    top_rows = [g for g in groups if bool((flat[torch.tensor(g)].abs().to(torch.float64) >= top * 0.49).any())]
    bad = set((~fin).nonzero().reshape(-1).tolist())
    zr = set(p for g in zero_rows for p in g)
    tr_ = set(p for g in top_rows for p in g)
    if not bad:
        cls = "finite"
    elif bad <= zr and qtype.is_floating_point:
        cls = "zero-row-float8"
    elif bad <= tr_:
        cls = "near-max"
    elif bad <= (zr | tr_) and qtype.is_floating_point:
        cls = "zero-row-float8+near-max"
    else:
        cls = "other"
    dqf = dq.reshape(-1)
    zero_exact = all(bool((dqf[torch.tensor(g)] == 0).all()) for g in zero_rows if not (set(g) & bad))
    evs = [{"act": "Finite", "kind": "quantize_weight", "qt": qt, "fmt": fmt, "axis": axis, "gs": gs if gs else "none",
            "shape": list(x.shape), "finite": not bad, "zero_exact": bool(zero_exact), "class": cls,
            "classes": sorted(set(used_classes)), "nonfinite": len(bad)}]
    if qtype.bits == 8:
        ev = sym_event(x, qt, q._scale, q.axis, "quantizer")
    else:
        ev = aff_event(x, qtype.bits, axis, gs)
    ev["nonfinite_judged_by_c16"] = True
    evs.append(ev)
    return evs


def _zero_layer_case(fmt, wq, kind, aq, frozen, seed):
    from optimum.quanto import Calibration, freeze, quantize
    dtype = FMT[fmt]
    torch.default_generator.manual_seed(seed)
    if kind == "linear":
        m = torch.nn.Sequential(torch.nn.Linear(32, 8, dtype=dtype))
        xin = torch.randn(3, 32).to(dtype)
    else:
        m = torch.nn.Sequential(torch.nn.Conv2d(4, 6, 3, groups=2 if kind == "conv2d-g2" else 1, dtype=dtype))
        xin = torch.randn(2, 4, 5, 5).to(dtype)
    with torch.no_grad():
        m[0].weight.zero_()
    quantize(m, weights=qtypes[wq], activations=qtypes[aq] if aq else None)
    with torch.no_grad():
        if aq:
            with Calibration(streamline=False):
                m(xin)
        if frozen:
            freeze(m)
        y = m(xin)
    if isinstance(y, QTensor):
        y = y.dequantize()
    b = m[0].bias.detach()
    ref = b.reshape(1, -1).expand(3, 8) if kind == "linear" else b.reshape(1, -1, 1, 1).expand(y.shape)
    finite = bool(torch.isfinite(y.to(torch.float32)).all())
    if aq is None:
        exact = bool(torch.equal(y, ref.to(y.dtype)))
    else:   # the output is re-quantized with the calibrated output scale: within one step of it
        osc = float(m[0].output_scale)
        exact = finite and bool(((y.to(torch.float64) - ref.to(torch.float64)).abs() <= osc * (1.0 if aq == "qint8" else 32.0) + 1e-30).all())
    return {"finite": finite, "exact": exact, "out_dtype": str(y.dtype)}


def _calib_case(fmt, aq, batch, seed):
    from optimum.quanto import Calibration, quantize
    dtype = FMT[fmt]
    torch.default_generator.manual_seed(seed)
    # feature sizes are multiples of 16: torch._weight_int8pack_mm (bfloat16 route) is unsafe otherwise (C07 finding)
    m = torch.nn.Sequential(torch.nn.Linear(32, 16, dtype=dtype), torch.nn.Linear(16, 4, dtype=dtype))
    quantize(m, weights=qtypes["qint8"], activations=qtypes[aq])
    cal = torch.zeros(2, 32, dtype=dtype) if batch == "zero" else torch.full((2, 32), 0.75, dtype=dtype)
    with torch.no_grad():
        if batch == "zero":
            m[0].bias.zero_()
            m[1].bias.zero_()
        with Calibration(streamline=False):
            m(cal)
            m(cal)          # a second batch: the moving average of a zero / constant range
        ys = [m(cal), m(torch.randn(2, 32).to(dtype))]
    ys = [y.dequantize() if isinstance(y, QTensor) else y for y in ys]
    return {"finite": all(bool(torch.isfinite(y.to(torch.float32)).all()) for y in ys)}


def module_finite_events(req, rnd):
    """zero-weight layers output exactly their bias; calibration on zero / constant batches then inference"""
    from isolate import run_isolated
    out = []
    # one-time initialisations (kernels, op registration) happen here, not in every forked child
    for warm in (lambda: _zero_layer_case("float32", "qint4", "conv2d", "qint8", True, 0),
                 lambda: _zero_layer_case("float32", "qfloat8_e4m3fn", "linear", "qfloat8_e4m3fn", False, 0),
                 lambda: _calib_case("float32", "qint8", "constant", 0)):
        try:
            warm()
        except Exception:  # noqa: BLE001  (the isolated cases below report it)
            pass
    for fmt in ("float32", "float16", "bfloat16"):
        for wq in ("qint8", "qfloat8_e4m3fn", "qfloat8_e5m2", "qint4", "qint2"):
            for kind in ("linear", "conv2d", "conv2d-g2"):
                for aq in (None, "qint8", "qfloat8_e4m3fn"):
                    for frozen in (False, True):
                        r = run_isolated(_zero_layer_case, fmt, wq, kind, aq, frozen, rnd.randrange(10 ** 6))
                        ev = {"act": "Finite", "kind": "zero-weights-layer", "layer": kind, "qt": wq, "aq": aq or "none", "fmt": fmt,
                              "frozen": frozen}
                        if "ok" in r:
                            finite, exact = r["ok"]["finite"], r["ok"]["exact"]
                            ev.update({"finite": finite, "zero_exact": exact, "outcome": "value",
                                       "class": "finite" if finite else ("zero-row-float8" if qtypes[wq].is_floating_point else "other")})
                        else:
                            ev.update({"finite": False, "zero_exact": False, "class": "raised" if "exc" in r else "crash",
                                       "outcome": r.get("exc") or ("signal %s" % r.get("crash")), "msg": r.get("msg", "")[:200]})
                        out.append([ev])
        for aq in ("qint8", "qfloat8_e4m3fn", "qfloat8_e5m2"):
            for batch in ("zero", "constant"):
                r = run_isolated(_calib_case, fmt, aq, batch, rnd.randrange(10 ** 6))
                ev = {"act": "Finite", "kind": "calibration-then-inference", "batch": batch, "qt": aq, "fmt": fmt, "zero_exact": True}
                if "ok" in r:
                    finite = r["ok"]["finite"]
                    ev.update({"finite": finite, "outcome": "value",
                               "class": "finite" if finite else ("zero-batch-float8-activations" if batch == "zero" and aq != "qint8" else "other")})
                else:
                    ev.update({"finite": False, "class": "raised" if "exc" in r else "crash",
                               "outcome": r.get("exc") or ("signal %s" % r.get("crash")), "msg": r.get("msg", "")[:200]})
                out.append([ev])
    return out


def drive_finite(req):
    rnd = random.Random(req.get("seed", 0))
    torch.manual_seed(req.get("seed", 0))
    traces = []
    classes = ["zero", "constant", "one-sided", "offset", "subnormal", "near-max", "mixed", "single", "mixed-max", "noise", "tiny", "huge", "loguniform", "underflow"]
    shapes = [(4, 8), (8, 4), (2, 3, 4), (6,)]
    for fmt in ("float32", "float16", "bfloat16"):
        dtype = FMT[fmt]
        for qt in ("qint8", "qfloat8_e4m3fn", "qfloat8_e5m2", "qint4", "qint2"):
            bits = qtypes[qt].bits
            for shape in shapes:
                for axis in (0, -1):
                    if len(shape) == 1 and (axis == -1 or bits == 8):
                        continue          # 8-bit per-axis quantization of a vector is refused with ValueError (C14)
                    n = 1
                    for d in shape:
                        n *= d
                    rem = n // (shape[0] if axis == 0 else shape[-1])
                    gss = [None] if bits == 8 else [None] + [d for d in divisors(rem) if 1 < d < rem][:2]
                    for gs in gss:
                        for rep in range(req.get("reps", 2)):
                            k = rnd.randrange(len(classes))
                            cl = classes[k:] + classes[:k]
                            cl = cl[: rnd.randint(1, 4)]
                            x, used = class_tensor(list(shape), axis, gs if bits != 8 else None, rnd, dtype, cl)
                            groups = abstract_groups(list(shape), axis, gs if bits != 8 else None)
                            if bits == 8 and (len(shape) == 1 or (shape[0] if axis == 0 else shape[-1]) == 1):
                                groups = [list(range(n))]
                            traces.append(finite_events(x, qt, axis, gs, used, groups))
    traces += module_finite_events(req, rnd)
    return traces


def main():
    req = json.load(open(sys.argv[1]))
    mode = req["mode"]
    if mode == "sym_wide":
        tr = drive_sym_wide(req)
    elif mode == "aff":
        tr = drive_aff(req)
    elif mode == "range":
        tr = drive_range(req)
    elif mode == "finite":
        tr = drive_finite(req)
    else:
        raise SystemExit("unknown mode")
    json.dump({"traces": tr}, open(sys.argv[2], "w"))


if __name__ == "__main__":
    main()
