"""Gradients through quantized modules vs their float twins (property C11, StraightThrough)."""
import json
import sys
from fractions import Fraction

import qenv  # noqa: F401
import torch
import torch.nn.functional as F
from exact import FMT, FMT_NAME, limbs, to_fractions
from isolate import run_isolated
from optimum.quanto import Calibration, QTensor, freeze, qtypes, quantize, quantize_activation
from optimum.quanto.nn import QModuleMixin


def low_exp(v):
    if v == 0:
        return None
    num, den = v.numerator, v.denominator
    e = -(den.bit_length() - 1)
    while num % 2 == 0:
        num //= 2
        e += 1
    return e


def pack3(a, b, absb, limit=48):
    """observed, reference, abs-reference tensors -> BigInt lists at a common exponent (sampled)"""
    n = a.numel()
    idx = torch.linspace(0, n - 1, min(n, limit)).long()
    fa, fb, fc = to_fractions(a.reshape(-1)[idx]), to_fractions(b.reshape(-1)[idx]), to_fractions(absb.reshape(-1)[idx])
    es = [low_exp(v) for v in fa + fb + fc if not isinstance(v, str) and v != 0]
    E = min(es) if es else 0

    def big(vals):
        out = []
        for v in vals:
            if isinstance(v, str):
                out.append({"s": 2, "m": []})
            else:
                q = int(v / (Fraction(2) ** E if E >= 0 else Fraction(1, 2 ** -E)))
                out.append({"s": (q > 0) - (q < 0), "m": limbs(abs(q))})
        return out
    return {"E": E, "got": big(fa), "ref": big(fb), "absref": big(fc), "shape_ok": list(a.shape) == list(b.shape),
            "dtype_ok": a.dtype == b.dtype}


def one(case):
    dtype = FMT[case["dtype"]]
    g = torch.Generator().manual_seed(case["seed"])
    kind = case["kind"]
    if kind == "linear":
        fm = torch.nn.Linear(16, 8, bias=case["bias"])
        lead = {2: (5,), 3: (3, 4), 4: (2, 3, 2)}[case["rank"]]
        xshape = lead + (16,)
    else:
        fm = torch.nn.Conv2d(4, 6, 3, padding=1, bias=case["bias"])
        xshape = (2, 4, 5, 5) if case["rank"] == 4 else (4, 5, 5)
    fm = fm.to(dtype)
    model = torch.nn.Sequential(fm)
    kw = {"weights": qtypes[case["wq"]]}
    if case["aq"] != "none":
        kw["activations"] = qtypes[case["aq"]]
    quantize(model, **kw)
    qm = model[0]
    x = (torch.randn(xshape, generator=g)).to(dtype)
    if case["aq"] != "none":
        with torch.no_grad(), Calibration(streamline=False):
            model(x)
    if case["frozen"]:
        freeze(model)
    x = x.clone().requires_grad_(True)
    y = qm(x)
    yd = y.dequantize() if isinstance(y, QTensor) else y
    go = torch.randn(yd.shape, generator=g).to(dtype)
    if case["go"] == "permuted" and go.ndim >= 3:
        go = torch.randn(yd.transpose(0, 1).shape, generator=g).to(dtype).transpose(0, 1)      # non-contiguous upstream gradient
    elif case["go"] == "expanded":
        go = torch.ones((), dtype=dtype).expand(yd.shape)                                       # what .sum().backward() sends
    yd.backward(go)
    res = {"x_has_grad": x.grad is not None, "w_has_grad": qm.weight.grad is not None,
           "b_has_grad": qm.bias is not None and qm.bias.grad is not None,
           "scale_has_grad": qm.input_scale.grad is not None or qm.output_scale.grad is not None,
           "go_contiguous": bool(go.is_contiguous())}
    # float twin: dequantized weight, (de)quantized input
    with torch.no_grad():
        wdq = qm.qweight.dequantize().detach().clone()
        if case["aq"] != "none":
            xdq = quantize_activation(x.detach(), qtype=qm.activation_qtype, scale=qm.input_scale).dequantize()
        else:
            xdq = x.detach().clone()
    wl = wdq.clone().requires_grad_(True)
    xl = xdq.clone().requires_grad_(True)
    bl = qm.bias.detach().clone().requires_grad_(True) if qm.bias is not None else None
    if kind == "linear":
        yr = F.linear(xl, wl, bl)
        ya = F.linear(xdq.abs().requires_grad_(True), wdq.abs().requires_grad_(True), None)
    else:
        yr = torch.nn.Conv2d._conv_forward(qm, xl, wl, bl)
    yr.backward(go)
    # magnitudes for the accumulation bound: the same backward on absolute values
    wa = wdq.abs().clone().requires_grad_(True)
    xa = xdq.abs().clone().requires_grad_(True)
    ba = qm.bias.detach().abs().clone().requires_grad_(True) if qm.bias is not None else None
    ya = F.linear(xa, wa, ba) if kind == "linear" else torch.nn.Conv2d._conv_forward(qm, xa, wa, ba)
    ya.backward(go.abs())
    res["gx"] = pack3(x.grad, xl.grad, xa.grad) if x.grad is not None else None
    if not case["frozen"]:
        res["gw"] = pack3(qm.weight.grad, wl.grad, wa.grad) if qm.weight.grad is not None else None
    if qm.bias is not None:
        res["gb"] = pack3(qm.bias.grad, bl.grad, ba.grad) if qm.bias.grad is not None else None
    res["terms"] = int(max(wdq.numel() // wdq.shape[0], yd.numel() // yd.shape[-1] if kind == "linear" else yd.numel() // yd.shape[-3]))
    return res


def _job(case):
    r = run_isolated(one, case, timeout=120)
    ev = {"act": "Grad", "case": case}
    if "ok" in r:
        ev.update(r["ok"])
        ev["outcome"] = "ok"
        for k in ("gx", "gw", "gb"):
            if ev.get(k) is None:
                ev[k] = {"E": 0, "got": [], "ref": [], "absref": [], "shape_ok": True, "dtype_ok": True, "missing": True}
            else:
                ev[k]["missing"] = False
    else:
        ev.update({"outcome": r.get("exc") or ("crash:%s" % r.get("crash")), "msg": (r.get("msg") or "")[:200]})
    return ev


def main():
    req = json.load(open(sys.argv[1]))
    one({"dtype": "float32", "kind": "linear", "wq": "qint8", "aq": "qint8", "rank": 3, "go": "dense", "frozen": False, "bias": True, "seed": 1})
    import multiprocessing as mp
    with mp.get_context("fork").Pool(12) as pool:
        evs = pool.map(_job, req["cases"], chunksize=4)
    json.dump({"traces": [[e] for e in evs]}, open(sys.argv[2], "w"))


if __name__ == "__main__":
    main()
