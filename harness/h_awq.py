"""AWQ packers and the AWQ-optimised tensor on CPU: the two quanto modules assert CUDA, so they are
loaded from the tree under verification compiled with optimize=1 (assert statements stripped, source
otherwise verbatim).  Position maps are recovered by packing index-coded matrices."""
import json
import os
import sys
from fractions import Fraction

import qenv
import torch
from exact import limbs, to_fractions


def load_stripped():
    import importlib
    import types
    base = os.path.join(qenv.REPO, "optimum/quanto/tensor/qbits/awq")
    for name in ("packed", "qbits"):
        full = "optimum.quanto.tensor.qbits.awq." + name
        path = os.path.join(base, name + ".py")
        mod = types.ModuleType(full)
        mod.__file__ = path
        mod.__package__ = "optimum.quanto.tensor.qbits.awq"
        sys.modules[full] = mod
        exec(compile(open(path).read(), path, "exec", optimize=1), mod.__dict__)
        setattr(sys.modules["optimum.quanto.tensor.qbits.awq"], name, mod)
    return sys.modules["optimum.quanto.tensor.qbits.awq.packed"], sys.modules["optimum.quanto.tensor.qbits.awq.qbits"]


import optimum.quanto  # noqa: E402,F401
P, Q = load_stripped()
sys.path.insert(0, os.path.join(qenv.REPO, "external", "awq"))


def digit_matrices(N, K):
    idx = torch.arange(N * K).reshape(N, K)
    return [((idx >> (4 * d)) & 15).to(torch.uint8) for d in range(4)]


def nibbles(packed, nb):
    """packed integer matrix (rows, cols) -> tensor (rows, cols, nb) of 4-bit fields"""
    x = packed.to(torch.int64)
    if nb == 4:
        x = x & 0xFFFF
    else:
        x = x & 0xFFFFFFFF
    return torch.stack([(x >> (4 * i)) & 15 for i in range(nb)], -1)


def recover(packfn, unpackfn, N, K, nb):
    mats = digit_matrices(N, K)
    fields = None
    rt = True
    for d, m in enumerate(mats):
        pk = packfn(m)
        f = nibbles(pk, nb)
        fields = f if fields is None else fields + (f << (4 * d))
        if unpackfn is not None:
            rt = rt and bool(torch.equal(unpackfn(pk).to(torch.uint8).reshape(N, K), m))
    # fields[r, c, i] = source flat index stored there
    rows, cols, _ = fields.shape
    dest = [None] * (N * K)
    for r in range(rows):
        for c in range(cols):
            for i in range(nb):
                src = int(fields[r, c, i])
                if 0 <= src < N * K:
                    dest[src] = [r, c, i]
    # a source position stored nowhere (the packer is not injective): outside every field, so the bijection clause rejects it
    dest = [d if d is not None else [-1, -1, -1] for d in dest]
    return dest, rt, [rows, cols]


def perm_events(layout, N, K):
    evs = []
    try:
        if layout == "v2":
            dest, rt, shp = recover(P.pack_v2, P.unpack_v2, N, K, 4)
        else:
            re = layout == "v1r"
            dest, rt, shp = recover(lambda m: P.pack(m, reorder=re), lambda p: P.unpack(p, reorder=re), N, K, 8)
        # through the tensor class as well
        t = P.AWQPackedTensor.pack(digit_matrices(N, K)[0], packing=P.AWQPacking.V2 if layout == "v2" else P.AWQPacking.V1, reorder=(layout == "v1r"))
        rt = rt and bool(torch.equal(t.unpack().to(torch.uint8), digit_matrices(N, K)[0]))
        evs.append({"act": "Perm", "layout": layout, "N": N, "K": K, "impl": "quanto", "dest": dest, "roundtrip": rt, "outcome": "ok", "packed_shape": shp})
    except Exception as e:  # noqa: BLE001
        evs.append({"act": "Perm", "layout": layout, "N": N, "K": K, "impl": "quanto", "dest": [], "roundtrip": False, "outcome": type(e).__name__, "msg": str(e)[:200]})
        return evs
    if layout == "v2":
        try:
            from pack_intweight import pack_intweight
            dest, rt, shp = recover(lambda m: pack_intweight(m.to(torch.int32), interleave=4, kstride=64), None, N, K, 4)
            evs.append({"act": "Perm", "layout": layout, "N": N, "K": K, "impl": "reference", "dest": dest, "roundtrip": True, "outcome": "ok", "packed_shape": shp})
        except Exception as e:  # noqa: BLE001
            evs.append({"act": "Perm", "layout": layout, "N": N, "K": K, "impl": "reference", "dest": [], "roundtrip": False, "outcome": type(e).__name__, "msg": str(e)[:200]})
    return evs


def bigs(vals, E):
    out = []
    for v in vals:
        if isinstance(v, str):
            out.append({"s": 2, "m": []})
            continue
        n = int(v / (Fraction(2) ** E if E >= 0 else Fraction(1, 2 ** -E)))
        out.append({"s": (n > 0) - (n < 0), "m": limbs(abs(n))})
    return out


def low_exp(v):
    if v == 0:
        return None
    num, den = v.numerator, v.denominator
    e = -(den.bit_length() - 1)
    while num % 2 == 0:
        num //= 2
        e += 1
    return e


def convert_event(N, K, seed):
    from optimum.quanto import QBitsTensor, qint4, quantize_weight
    g = torch.Generator().manual_seed(seed)
    w = (torch.randn(N, K, generator=g) * 0.5).to(torch.float16)
    w[0, :128] = torch.linspace(-1, 1, 128).to(torch.float16)      # a group that uses the whole code range
    std = quantize_weight(w, qint4, axis=0, group_size=128)
    ev = {"act": "Convert", "N": N, "K": K, "seed": seed}
    try:
        opt = Q.AWQBitsTensor(qint4, 0, 128, std.size(), std.stride(), std._data.unpack(), std._scale, std._zeropoint)
        d_std, d_opt = std.dequantize(), opt.dequantize()
        n = min(d_std.numel(), 256)
        idx = torch.linspace(0, d_std.numel() - 1, n).long()
        a, b = to_fractions(d_std.reshape(-1)[idx]), to_fractions(d_opt.reshape(-1)[idx])
        # magnitude of the two terms scale*code and scale*zeropoint that the optimised form rounds separately
        sc = std._scale.float().reshape(-1, 1).expand(-1, 128).reshape(N, K)
        absterm = to_fractions((sc * 15).reshape(-1)[idx])
        es = [low_exp(v) for v in a + b + absterm if not isinstance(v, str) and v != 0]
        E = min(es) if es else 0
        ev.update({"outcome": "ok", "E": E, "deq_std": bigs(a, E), "deq_opt": bigs(b, E), "absterm": bigs(absterm, E),
                   "shape_same": list(d_std.shape) == list(d_opt.shape)})
        back = {}
        try:
            s2 = opt.qbits_tensor()
            back["outcome"] = "ok"
            back["codes_same"] = list(s2._data.unpack().shape) == list(std._data.unpack().shape) and bool(torch.equal(s2._data.unpack(), std._data.unpack()))
            back["scale_same"] = list(s2._scale.shape) == list(std._scale.shape) and bool(torch.equal(s2._scale, std._scale))
            back["zp_same"] = s2._zeropoint.dtype == std._zeropoint.dtype and list(s2._zeropoint.shape) == list(std._zeropoint.shape) and bool(torch.equal(s2._zeropoint, std._zeropoint))
            back["meta_same"] = (type(s2) is QBitsTensor and s2.qtype == std.qtype and s2.axis == std.axis and s2._group_size == std._group_size and list(s2.shape) == list(std.shape))
            try:
                back["deq_same"] = bool(torch.equal(s2.dequantize(), d_std))
            except Exception:  # noqa: BLE001
                back["deq_same"] = False
        except Exception as e:  # noqa: BLE001
            back = {"outcome": type(e).__name__, "codes_same": False, "scale_same": False, "zp_same": False, "meta_same": False, "deq_same": False}
        ev["back"] = back
        try:
            d1, d2 = {}, {}
            std.save_to_state_dict(d1, "w.", False)
            opt.save_to_state_dict(d2, "w.", False)
            ev["saved_same"] = d1.keys() == d2.keys() and all((d1[k] == d2[k]) if isinstance(d1[k], str) else (d1[k].dtype == d2[k].dtype and torch.equal(d1[k], d2[k])) for k in d1)
        except Exception:  # noqa: BLE001
            ev["saved_same"] = False
    except Exception as e:  # noqa: BLE001
        ev.update({"outcome": type(e).__name__, "msg": str(e)[:200], "deq_std": [], "deq_opt": [], "absterm": [], "back": {"outcome": "none", "codes_same": False, "scale_same": False, "zp_same": False, "meta_same": False, "deq_same": False}, "saved_same": False})
    return ev


def main():
    req = json.load(open(sys.argv[1]))
    traces = []
    for c in req["cases"]:
        traces.append(perm_events(c["layout"], c["N"], c["K"]))
    for (layout, N, K) in req.get("extra_shapes", []):
        traces.append(perm_events(layout, N, K))
    for i, (N, K) in enumerate(req.get("convert", [])):
        traces.append([convert_event(N, K, req.get("seed", 0) + i)])
    json.dump({"traces": traces}, open(sys.argv[2], "w"))


if __name__ == "__main__":
    main()
