"""Replays every configuration of Config.tla on the real entry points; instantiates
quantized modules for the automatic group size."""
import json
import sys

import qenv  # noqa: F401
import torch
from exact import FMT_NAME
from optimum.quanto import QLinear, QConv2d, qtypes, quantize_activation, quantize_weight
from optimum.quanto.tensor.optimizers import AbsmaxOptimizer, MaxOptimizer
from optimum.quanto.tensor.quantizers import AffineQuantizer, SymmetricQuantizer

NOAXIS, NOGS = 99, 0


def project(q):
    inner = q._data._data if hasattr(q._data, "_data") else q._data
    unp = q._data.unpack() if hasattr(q._data, "unpack") else q._data
    return {"qtype": q.qtype.name, "axis": NOAXIS if q.axis is None else q.axis,
            "gs": NOGS if getattr(q, "_group_size", None) is None else q._group_size,
            "scales": int(q._scale.numel()), "shape": list(q.shape), "dtype": FMT_NAME.get(q.dtype, str(q.dtype)),
            "payload_numel": int(unp.numel()), "class": type(q).__name__, "inner_bytes": int(inner.numel())}


def call(c, dtype):
    shape = c["shape"]
    n = 1
    for d in shape:
        n *= d
    t = ((torch.arange(n, dtype=torch.float32) * 0.37 - 0.9) * ((-1.0) ** torch.arange(n))).reshape(shape).to(dtype)
    qtype = qtypes[c["qt"]]
    axis = None if c["axis"] == NOAXIS else c["axis"]
    gs = None if c["gs"] == NOGS else c["gs"]
    fn = c["fn"]
    if fn == "quantize_weight":
        opt = {"none": None, "sym": AbsmaxOptimizer(), "aff": MaxOptimizer()}[c["opt"]]
        return quantize_weight(t, qtype, axis, gs, opt)
    scale = torch.full(c["sshape"], 0.1, dtype=dtype)
    if fn == "quantize_activation":
        return quantize_activation(t, qtype, scale)
    if fn == "SymmetricQuantizer":
        return SymmetricQuantizer.apply(t, qtype, axis, scale)
    try:
        sc, zp = MaxOptimizer()(t, qtype.bits if qtype.bits < 8 else 4, axis, gs)
    except Exception:  # noqa: BLE001  the quantizer must reject this configuration by itself
        sc, zp = torch.ones(1, dtype=dtype), torch.zeros(1, dtype=torch.int8)
    return AffineQuantizer.apply(t, qtype, axis, gs, sc, zp)


def main():
    req = json.load(open(sys.argv[1]))
    traces = []
    dtypes = [torch.float32, torch.float16, torch.bfloat16]
    for i, c in enumerate(req["cases"]):
        dtype = dtypes[i % 3]
        ev = {"act": "Call", "fn": c["fn"], "qt": c["qt"], "shape": c["shape"], "axis": c["axis"], "gs": c["gs"],
              "opt": c["opt"], "sk": c["sk"], "sshape": c["sshape"], "dtype": FMT_NAME[dtype]}
        try:
            q = call(c, dtype)
            ev["outcome"] = "ok"
            ev["res"] = project(q)
        except ValueError as e:
            ev["outcome"] = "ValueError"
            ev["msg"] = str(e)[:120]
        except Exception as e:  # noqa: BLE001
            ev["outcome"] = "other:" + type(e).__name__
            ev["msg"] = str(e)[:160]
        want = c["outcome"]
        ev["tlc_same"] = (ev["outcome"] == "ok") == bool(want.get("ok"))
        traces.append([ev])
    # automatic group size
    auto = []
    for inf in req.get("in_features", []):
        for qt in ("qint4", "qint2"):
            m = QLinear(inf, 3, weights=qtypes[qt])
            try:
                with torch.no_grad():
                    y = m(torch.ones(2, inf))
                runs = bool(torch.isfinite(y).all()) and list(y.shape) == [2, 3]
            except Exception as e:  # noqa: BLE001
                runs = False
            auto.append({"act": "AutoGS", "kind": "linear", "qt": qt, "in_features": inf,
                         "gs": NOGS if m.weight_group_size is None else m.weight_group_size, "runs": runs})
    for (cin, groups, kh, kw) in req.get("convs", []):
        for qt in ("qint4", "qint2"):
            m = QConv2d(cin, groups * 2, (kh, kw), groups=groups, weights=qtypes[qt])
            inf = (cin // groups) * kh * kw
            try:
                with torch.no_grad():
                    y = m(torch.ones(1, cin, kh + 1, kw + 1))
                runs = bool(torch.isfinite(y).all())
            except Exception:  # noqa: BLE001
                runs = False
            auto.append({"act": "AutoGS", "kind": "conv2d", "qt": qt, "in_features": inf, "cfg": [cin, groups, kh, kw],
                         "gs": NOGS if m.weight_group_size is None else m.weight_group_size, "runs": runs})
    for i in range(0, len(auto), 50):
        traces.append(auto[i:i + 50])
    json.dump({"traces": traces}, open(sys.argv[2], "w"))


if __name__ == "__main__":
    main()
