"""Drives quanto's PackedTensor / unpack kernels; records scenarios for Trace_Pack."""
import json
import random
import sys

import qenv  # noqa: F401  (sets up sys.path / env)
import torch
from optimum.quanto.library import disable_extensions
from optimum.quanto.tensor.qbits.packed import PackedTensor
from total import observable, raised_event


def flat(t):
    return [int(x) for x in t.reshape(-1).tolist()]


class _Failing:
    def unpack(self, *a, **k):
        raise RuntimeError("verif: extension made to fail")


def routes(data, bits, ext_ok, ext):
    out = [("py", torch.ops.quanto_py.unpack(data, bits))]
    if ext_ok:
        out.append(("ext", torch.ops.quanto_ext.unpack(data, bits)))
        out.append(("top_enabled", torch.ops.quanto.unpack(data, bits)))
        saved = ext._lib
        ext._lib = _Failing()
        try:
            out.append(("top_failing", torch.ops.quanto.unpack(data, bits)))
        finally:
            ext._lib = saved
    with disable_extensions():
        out.append(("top_disabled", torch.ops.quanto.unpack(data, bits)))
    return out


OPS = [
    ("other:add", lambda x: x + 1),
    ("other:eq", lambda x: (x == 1).to(torch.uint8)),
    ("other:sum0", lambda x: x.sum(0)),
    ("other:reshape", lambda x: x.reshape(-1)),
    ("other:index", lambda x: x[-1]),
    ("other:mul", lambda x: x * 3),
    ("other:slice", lambda x: x[1:]),
    ("other:max", lambda x: x.max().reshape(1)),
    ("other:numpy", lambda x: torch.from_numpy(x.numpy().copy())),
    ("other:cat", lambda x: torch.cat([x, x], 0)),
    ("other:float", None),  # handled as to_other
]


def scenario(bits, rows, tshape, v, strided, ext_ok, ext, with_ops):
    trail = 1
    for d in tshape:
        trail *= d
    t = torch.tensor(v, dtype=torch.uint8).reshape([rows] + list(tshape))
    if strided and t.ndim >= 2:
        t = t.transpose(0, -1).contiguous().transpose(0, -1)
        assert not t.is_contiguous() or t.numel() <= 1 or min(t.shape) == 1
    evs = [{"act": "Start", "bits": bits, "rows": rows, "trail": trail, "v": v,
            "tshape": list(tshape), "strided": bool(strided)}]
    used = []
    try:
        _scenario_steps(evs, used, t, bits, ext_ok, ext, with_ops)
    except Exception as e:  # noqa: BLE001
        if not observable(e):
            raise
        evs.append(raised_event(evs[-1]["act"] + "+1", e))
    return evs, used


def _scenario_steps(evs, used, t, bits, ext_ok, ext, with_ops):
    # (4 bits is the documented default of PackedTensor.pack)
    p = PackedTensor.pack(t) if bits == 4 and t.shape[0] % 3 == 0 else PackedTensor.pack(t, bits)
    evs.append({"act": "Pack", "prow": int(p._data.shape[0]), "payload": flat(p._data),
                "pshape": list(p._data.shape), "public_shape": list(p.shape)})
    for name, out in routes(p._data, bits, ext_ok, ext):
        evs.append({"act": "Unpack", "route": name, "out": flat(out)})
        used.append(name)
    evs.append({"act": "UnpackT", "out": flat(p.unpack())})
    if with_ops:
        d = p.detach()
        evs.append({"act": "Op", "kind": "detach", "outcome": "packed" if type(d) is PackedTensor else "value",
                    "on_packed": flat(d.unpack() if type(d) is PackedTensor else d), "on_unpacked": flat(t)})
        d = p.clone()
        evs.append({"act": "Op", "kind": "clone", "outcome": "packed" if type(d) is PackedTensor else "value",
                    "on_packed": flat(d.unpack() if type(d) is PackedTensor else d), "on_unpacked": flat(t)})
        d = p.to(torch.uint8)
        evs.append({"act": "Op", "kind": "to_uint8", "outcome": "packed" if type(d) is PackedTensor else "value",
                    "on_packed": flat(d.unpack() if type(d) is PackedTensor else d), "on_unpacked": flat(t)})
        try:
            p.to(torch.float32)
            oc = "value"
        except ValueError:
            oc = "ValueError"
        except Exception as e:  # noqa: BLE001
            oc = type(e).__name__
        evs.append({"act": "Op", "kind": "to_other", "outcome": oc, "on_packed": [], "on_unpacked": []})
        for kind, fn in OPS:
            if fn is None:
                continue
            a = fn(p)
            b = fn(t)
            evs.append({"act": "Op", "kind": kind, "outcome": "value" if type(a) is torch.Tensor else type(a).__name__,
                        "on_packed": flat(a) + list(a.shape), "on_unpacked": flat(b) + list(b.shape)})


def bytes_scenario(bits, prow, trail, payload, ext_ok, ext, layout="contiguous"):
    data = torch.tensor(payload, dtype=torch.uint8).reshape(prow, trail)
    if layout == "transposed":        # same logical bytes, column-major storage
        data = data.t().contiguous().t()
    elif layout == "stepped":         # every other column of a wider buffer
        wide = torch.zeros(prow, 2 * trail, dtype=torch.uint8)
        wide[:, ::2] = data
        wide[:, 1::2] = 255 - data
        data = wide[:, ::2]
    elif layout == "offset":          # a row slice that does not start at the beginning of the storage
        tall = torch.full((prow + 2, trail), 170, dtype=torch.uint8)
        tall[1:prow + 1] = data
        data = tall[1:prow + 1]
    evs = [{"act": "StartBytes", "bits": bits, "prow": prow, "trail": trail, "payload": payload, "layout": layout,
            "contiguous": bool(data.is_contiguous())}]
    try:
        for name, out in routes(data, bits, ext_ok, ext):
            evs.append({"act": "Unpack", "route": name, "out": flat(out)})
    except Exception as e:  # noqa: BLE001
        if not observable(e):
            raise
        evs.append(raised_event("Unpack", e))
    return evs


def main():
    req = json.load(open(sys.argv[1]))
    ext_ok, ext_msg = qenv.ensure_ext() if req.get("use_ext", True) else (False, "disabled")
    from optimum.quanto.library.ext.cpp import ext
    scen = []
    routes_used = set()
    tshapes = {1: [[], [1]], 3: [[3]], 6: [[2, 3], [3, 2], [1, 6]], 256: [[256]]}
    for c in req.get("cases", []):
        for ts in tshapes.get(c["trail"], [[c["trail"]]]):
            for strided in ([False, True] if len(ts) >= 1 and c["rows"] > 1 else [False]):
                evs, used = scenario(c["bits"], c["rows"], ts, c["v"], strided, ext_ok, ext, with_ops=(c["rows"] % 5 == 2))
                if "payload" in c and len(evs) > 1 and evs[1]["act"] == "Pack":
                    evs[1]["tlc_payload_equal"] = evs[1]["payload"] == c["payload"]
                scen.append(evs)
                routes_used.update(used)
    rnd = random.Random(req.get("seed", 0))
    for _ in range(req.get("random", 0)):
        bits = rnd.choice([2, 4])
        rows = rnd.randint(1, req.get("maxrows", 40))
        rank = rnd.randint(0, 3)
        ts = [rnd.randint(1, 4) for _ in range(rank)]
        n = rows
        for d in ts:
            n *= d
        v = [rnd.randrange(2 ** bits) for _ in range(n)]
        evs, used = scenario(bits, rows, ts, v, rnd.random() < 0.5, ext_ok, ext, with_ops=rnd.random() < 0.3)
        scen.append(evs)
    for _ in range(req.get("random_bytes", 0)):
        bits = rnd.choice([2, 4])
        prow = rnd.randint(1, 6)
        trail = rnd.randint(1, 7)
        payload = [rnd.randrange(256) for _ in range(prow * trail)]
        scen.append(bytes_scenario(bits, prow, trail, payload, ext_ok, ext, rnd.choice(["contiguous", "transposed", "stepped", "offset"])))
    for bits in (2, 4):
        for layout in ("transposed", "stepped", "offset"):
            scen.append(bytes_scenario(bits, 3, 5, [(37 * k + 11) % 256 for k in range(15)], ext_ok, ext, layout))
            scen.append(bytes_scenario(bits, 16, 16, list(range(256)), ext_ok, ext, layout))
        scen.append(bytes_scenario(bits, 1, 256, list(range(256)), ext_ok, ext))
        scen.append(bytes_scenario(bits, 256, 1, list(range(256)), ext_ok, ext))
    json.dump({"scenarios": scen, "ext_ok": ext_ok, "ext_msg": ext_msg, "routes": sorted(routes_used)},
              open(sys.argv[2], "w"))


if __name__ == "__main__":
    main()
