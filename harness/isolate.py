"""Crash isolation: run one case in a forked child; a child killed by a signal becomes the
observation {"crash": <signal>} instead of taking the harness down (DESIGN.md 4.5)."""
import json
import os
import signal
import sys
import traceback


def run_isolated(fn, *args, timeout=120, **kwargs):
    r, w = os.pipe()
    pid = os.fork()
    if pid == 0:
        os.close(r)
        rc = 0
        try:
            signal.alarm(timeout)
            res = fn(*args, **kwargs)
            data = json.dumps({"ok": res}).encode()
        except BaseException as e:  # noqa: BLE001
            data = json.dumps({"exc": type(e).__name__, "msg": str(e)[:500], "tb": traceback.format_exc()[-1500:]}).encode()
        try:
            with os.fdopen(w, "wb") as f:
                f.write(data)
        finally:
            sys.stdout.flush()
            os._exit(rc)
    os.close(w)
    chunks = []
    with os.fdopen(r, "rb") as f:
        while True:
            b = f.read(1 << 16)
            if not b:
                break
            chunks.append(b)
    _, status = os.waitpid(pid, 0)
    if os.WIFSIGNALED(status):
        return {"crash": os.WTERMSIG(status)}
    raw = b"".join(chunks)
    if not raw:
        return {"crash": -1}
    return json.loads(raw)
