"""Executes TLC-generated life-cycle skeletons (Lifecycle.tla) on real models and records, after
every action, the projection of the model and of the process-global state for Trace_Lifecycle.

Observation only uses public API, torch's global registries and module-level hooks installed by
this harness from outside (no change to quanto)."""
import copy
import hashlib
import io
import json
import os
import sys
import tempfile
from fractions import Fraction

import qenv  # noqa: F401
import torch
import torch.nn.functional as F
from exact import FMT, FMT_NAME, limbs, to_fractions
from isolate import run_isolated
from optimum.quanto import (Calibration, QBitsTensor, QBytesTensor, QTensor, absmax_scale, freeze, qtypes, quantize,
                            quantize_activation, quantize_weight, requantize, safe_load, safe_save)
from optimum.quanto.nn import QModuleMixin
from torch.nn.modules import module as tmod
from torch.overrides import _get_current_function_mode_stack

MOM = {"m50": 0.5, "m90": 0.9, "m25": 0.25, "m0": 0.0}
BATCH = {"b1": 1.0, "b2": 3.0, "b3": 0.25, "bone": None}
QT = {"qint8": "qint8", "qfloat8": "qfloat8", "qint4": "qint4", "qint2": "qint2", "qfloat8_e5m2": "qfloat8_e5m2", "qfloat8_e4m3fn": "qfloat8_e4m3fn"}


def digest(t):
    if t is None:
        return "none"
    if isinstance(t, QTensor):
        return "q:" + ":".join(digest(getattr(t, n)) for n in t.__tensor_flatten__()[0])
    if hasattr(t, "_data") and not isinstance(t, torch.nn.Parameter) and type(t).__name__ in ("PackedTensor", "AWQPackedTensor"):
        return "p:" + digest(t._data)
    t = t.detach()
    h = hashlib.sha256()
    h.update(str(t.dtype).encode())
    h.update(str(list(t.shape)).encode())
    tt = t.contiguous()
    if tt.dtype in (torch.float8_e4m3fn, torch.float8_e5m2):
        tt = tt.view(torch.uint8)
    if tt.dtype == torch.bfloat16:
        tt = tt.view(torch.int16)
    h.update(tt.cpu().numpy().tobytes())
    return h.hexdigest()[:20]


def low_exp(v):
    if v == 0:
        return None
    num, den = v.numerator, v.denominator
    e = -(den.bit_length() - 1)
    while num % 2 == 0:
        num //= 2
        e += 1
    return e


def exact_scalar(t):
    """0-dim / 1-element tensor -> {"m": limbs, "e": exponent, "s": sign, "dtype"} (value = s*m*2^e); non-finite -> s=2"""
    v = to_fractions(t.reshape(-1)[:1])[0]
    dt = FMT_NAME.get(t.dtype, str(t.dtype))
    if isinstance(v, str):
        return {"s": 2, "m": [], "e": 0, "dtype": dt, "f": v}
    e = low_exp(v) or 0
    n = int(v / (Fraction(2) ** e if e >= 0 else Fraction(1, 2 ** -e)))
    return {"s": (n > 0) - (n < 0), "m": limbs(abs(n)), "e": e, "dtype": dt, "f": float(v)}


def bigs(vals, E):
    out = []
    for v in vals:
        if isinstance(v, str):
            out.append({"s": 2, "m": []})
            continue
        q = v / (Fraction(2) ** E if E >= 0 else Fraction(1, 2 ** -E))
        n = int(q)
        out.append({"s": (n > 0) - (n < 0), "m": limbs(abs(n))})
    return out


# ---- model zoo ------------------------------------------------------------------------------
def parse_lit(x):
    import ast
    try:
        return ast.literal_eval(x)
    except Exception:  # noqa: BLE001
        return x


def build_module(desc, dtype, seed):
    """a single module from a Modules.tla description"""
    g = torch.Generator().manual_seed(seed)
    k = desc["kind"]
    if k == "Linear":
        m = torch.nn.Linear(desc["inf"], desc["outf"], bias=desc["bias"])
        xshape = (3, desc["inf"])
    elif k == "Conv2d":
        m = torch.nn.Conv2d(4, 6, 3, stride=parse_lit(desc["stride"]), padding=parse_lit(desc["padding"]), dilation=parse_lit(desc["dilation"]),
                            groups=desc["groups"], bias=desc["bias"], padding_mode=desc["padding_mode"])
        xshape = (2, 4, 9, 9)
    else:
        m = torch.nn.LayerNorm(tuple(desc["nshape"]), elementwise_affine=desc["affine"], bias=desc["bias"]) if desc["affine"] else \
            torch.nn.LayerNorm(tuple(desc["nshape"]), elementwise_affine=False)
        xshape = (3, 4, 16)
    for p in m.parameters():
        with torch.no_grad():
            p.copy_(torch.randn(p.shape, generator=g) * 0.5)
    return torch.nn.Sequential(m).to(dtype), xshape


def build(arch, dtype, seed, nested):
    if isinstance(arch, dict):
        return build_module(arch, dtype, seed)
    g = torch.Generator().manual_seed(seed)
    kinds = list(arch)
    mods = []
    if "Conv2d" in kinds:
        dims = [4, 6, 6, 4]
        ci = 0
        for k in kinds:
            if k == "Conv2d":
                m = torch.nn.Conv2d(dims[ci], dims[ci + 1], 3 if ci == 0 else 1, padding=1 if ci == 0 else 0)
                ci += 1
            else:
                m = torch.nn.ReLU()
            mods.append(m)
        xshape = (2, 4, 5, 5)
    else:
        feats = [192, 256, 8, 8] if kinds == ["Linear", "Linear"] else [16, 32, 32, 8]
        fi = 0
        cur = feats[0]
        for k in kinds:
            if k == "Linear":
                m = torch.nn.Linear(cur, feats[fi + 1])
                cur = feats[fi + 1]
                fi += 1
            elif k == "LayerNorm":
                m = torch.nn.LayerNorm(cur)
            else:
                m = torch.nn.ReLU()
            mods.append(m)
        xshape = (3, feats[0])
    for m in mods:
        for p in m.parameters():
            with torch.no_grad():
                p.copy_(torch.randn(p.shape, generator=g) * 0.5)
    if nested and len(mods) >= 3:
        model = torch.nn.Sequential(torch.nn.Sequential(*mods[:2]), *mods[2:])
    else:
        model = torch.nn.Sequential(*mods)
    model = model.to(dtype)
    return model, xshape


def leaf_modules(model):
    """the chain positions: leaves in definition order (names, modules)"""
    out = []
    for name, m in model.named_modules():
        if len(list(m.children())) == 0:
            out.append((name, m))
    return out


HYPER = {"Linear": ["in_features", "out_features"],  # noqa: E501
         "Conv2d": ["in_channels", "out_channels", "kernel_size", "stride", "padding", "dilation", "groups", "padding_mode"],
         "LayerNorm": ["normalized_shape", "eps", "elementwise_affine"]}
HYPER["Conv2d"] += ["_reversed_padding_repeated_twice"]


def base_kind(m):
    for k, cls in (("Linear", torch.nn.Linear), ("Conv2d", torch.nn.Conv2d), ("LayerNorm", torch.nn.LayerNorm)):
        if isinstance(m, cls):
            return k
    return "Other"


def qname(q):
    return "none" if q is None else q.name


def weight_payload(w):
    """projection of a frozen weight (QTensor)"""
    p = {"cls": type(w).__name__, "qtype": w.qtype.name, "axis": 99 if w.axis is None else w.axis, "shape": list(w.shape),
         "dtype": FMT_NAME.get(w.dtype, str(w.dtype)), "scale_count": int(w._scale.numel()), "scale_dtype": FMT_NAME.get(w._scale.dtype, str(w._scale.dtype))}
    if isinstance(w, QBitsTensor):
        inner = w._data._data
        p.update({"gs": w._group_size or 0, "payload_bytes": int(inner.numel() * inner.element_size()), "payload_rows": int(inner.shape[0]),
                  "payload_dtype": str(inner.dtype).replace("torch.", ""), "zp_count": int(w._zeropoint.numel()), "bits": w.qtype.bits,
                  "grouped_rows": int(w._data.shape[0]), "grouped_numel": int(w._data.numel())})
    else:
        inner = w._data
        p.update({"gs": 0, "payload_bytes": int(inner.numel() * inner.element_size()), "payload_rows": int(inner.shape[0]),
                  "payload_dtype": str(inner.dtype).replace("torch.", ""), "zp_count": 0, "bits": 8,
                  "grouped_rows": int(inner.shape[0]), "grouped_numel": int(inner.numel())})
    return p


def project_model(model):
    mods = []
    for name, m in leaf_modules(model):
        kind = base_kind(m)
        e = {"name": name, "cls": type(m).__name__, "kind": kind, "q": isinstance(m, QModuleMixin)}
        e["hyper"] = {h: str(getattr(m, h)) for h in HYPER.get(kind, [])}
        w = getattr(m, "weight", None)
        b = getattr(m, "bias", None)
        e["has_bias"] = b is not None
        e["bias_digest"] = digest(b) if b is not None else "none"
        e["dtype"] = FMT_NAME.get(w.dtype, str(w.dtype)) if w is not None else "none"
        e["device"] = str(w.device) if w is not None else "none"
        if isinstance(m, QModuleMixin):
            e.update({"wq": qname(m.weight_qtype), "aq": qname(m.activation_qtype), "frozen": bool(m.frozen), "gs": m.weight_group_size or 0,
                      "insc": exact_scalar(m.input_scale), "outsc": exact_scalar(m.output_scale)})
            if m.frozen:
                e["weight_digest"] = digest(w.data)
                e["payload"] = weight_payload(w.data)
            else:
                e["weight_digest"] = digest(w)
                e["payload"] = {"cls": "float"}
        else:
            zero = {"s": 0, "m": [], "e": 0, "dtype": "none", "f": 0.0}
            e.update({"wq": "none", "aq": "none", "frozen": False, "gs": 0, "weight_digest": digest(w) if w is not None else "none", "payload": {"cls": "float"},
                      "insc": zero, "outsc": zero})
        mods.append(e)
    return mods


def globals_proj():
    return {"pre_hooks": len(tmod._global_forward_pre_hooks), "post_hooks": len(tmod._global_forward_hooks),
            "modes": len(_get_current_function_mode_stack())}


def state_digest(model):
    """digest of every parameter and buffer (C13: inference changes nothing)"""
    h = hashlib.sha256()
    for k, v in sorted(model.state_dict().items()):
        h.update(k.encode())
        h.update((v if isinstance(v, str) else digest(v)).encode())
    return h.hexdigest()[:20]


def sd_projection(sd):
    keys = {}
    for k, v in sd.items():
        if isinstance(v, str):
            keys[k] = "str:" + v
        elif type(v) is torch.Tensor:
            keys[k] = "tensor:" + digest(v)
        else:
            keys[k] = "other:" + type(v).__name__
    return keys


def deq(y):
    return y.dequantize() if isinstance(y, QTensor) else y


def out_proj(y):
    d = deq(y)
    return {"kind": "QBytes" if isinstance(y, QBytesTensor) else ("Q" if isinstance(y, QTensor) else "Plain"),
            "digest": digest(y) if not isinstance(y, QTensor) else digest(y),
            "value_digest": digest(d), "dtype": FMT_NAME.get(d.dtype, str(d.dtype)), "shape": list(d.shape),
            "finite": bool(torch.isfinite(d.to(torch.float32)).all())}


# ---- per-module recipe reference (C08 / C11) ----------------------------------------------------
def float_forward(m, x, w, b):
    kind = base_kind(m)
    if kind == "Linear":
        return F.linear(x, w, b)
    if kind == "Conv2d":
        return torch.nn.Conv2d._conv_forward(m, x, w, b)
    if kind == "LayerNorm":
        return F.layer_norm(x, m.normalized_shape, w, b, m.eps)
    raise KeyError(kind)


def recipe_event(m, name, xin, yout):
    """reference: float module with the dequantized quantized weight on the (de)quantized input"""
    aq = m.activation_qtype
    # the weight the statement prescribes: frozen -> the stored quantized weight; otherwise the CURRENT float weight quantized
    # now (independently of whatever the module may have kept from earlier forwards)
    if m.weight_qtype is None:
        w = None
    elif isinstance(m.weight, QTensor):
        w = m.weight
    else:
        with torch.no_grad():
            w = quantize_weight(m.weight.detach(), qtype=m.weight_qtype, axis=0, group_size=m.weight_group_size, optimizer=m.optimizer)
    wdq = w.dequantize() if w is not None else m.weight
    if isinstance(xin, QBytesTensor):
        if aq is not None and not (xin.qtype == aq and xin.axis is None):
            xq = quantize_activation(xin.dequantize(), qtype=aq, scale=m.input_scale)
        else:
            xq = xin
        xdq = xq.dequantize()
    elif aq is not None and base_kind(m) != "LayerNorm":
        xdq = quantize_activation(xin, qtype=aq, scale=m.input_scale).dequantize()
    else:
        xdq = xin
    ref = float_forward(m, xdq, wdq, m.bias)
    if aq is not None:
        # "... re-quantized with the module's output scale" (saturation included)
        ref = quantize_activation(ref, qtype=aq, scale=m.output_scale).dequantize()
    absref = float_forward(m, xdq.abs(), wdq.abs(), m.bias.abs() if m.bias is not None else None) if base_kind(m) != "LayerNorm" else ref.abs()
    out = deq(yout)
    rv, av, ov = to_fractions(ref), to_fractions(absref), to_fractions(out)
    sc = to_fractions(m.output_scale.reshape(-1)[:1])
    es = [low_exp(v) for v in rv + av + ov + sc if not isinstance(v, str) and v != 0]
    E = min(es) if es else 0
    n = min(len(rv), 48)
    idx = sorted(set([0, len(rv) - 1] + [int(i * (len(rv) - 1) / max(n - 1, 1)) for i in range(n)]))
    return {"name": name, "kind": base_kind(m), "aq": qname(aq), "wq": qname(m.weight_qtype), "E": E, "K": int(wdq.numel() // wdq.shape[0]) if base_kind(m) != "LayerNorm" else 1,
            "ref": bigs([rv[i] for i in idx], E), "absref": bigs([av[i] for i in idx], E), "out": bigs([ov[i] for i in idx], E),
            "outscale": bigs(sc, E)[0], "out_kind": "QBytes" if isinstance(yout, QBytesTensor) else "Plain",
            "out_qtype": yout.qtype.name if isinstance(yout, QBytesTensor) else "none",
            "out_dtype": FMT_NAME.get(out.dtype, str(out.dtype)), "ref_dtype": FMT_NAME.get(ref.dtype, str(ref.dtype)),
            "shape_ok": list(out.shape) == list(ref.shape), "in_kind": "QBytes" if isinstance(xin, QBytesTensor) else "Plain"}


class Runner:
    def __init__(self, sk, dtype_name, nested):
        self.sk = sk
        self.dtype = FMT[dtype_name]
        self.dtype_name = dtype_name
        self.nested = nested
        self.model, self.xshape = build(sk["arch"], self.dtype, 7, nested)
        self.float_proj = project_model(self.model)
        self.ctxs = []
        self.saved = None
        self.qargs = None
        g = torch.Generator().manual_seed(11)
        self.inputs = {"x1": torch.randn(self.xshape, generator=g).to(self.dtype), "x2": (torch.randn(self.xshape, generator=g) * 2).to(self.dtype)}
        self.batches = {k: (torch.randn(self.xshape, generator=g) * (v or 1.0)).to(self.dtype) for k, v in BATCH.items()}
        self._bone_raw = self.batches["bone"]
        self.events = []

    def post(self, ev):
        ev["mods"] = project_model(self.model)
        ev["globals"] = globals_proj()
        ev["state_digest"] = state_digest(self.model)
        self.events.append(ev)

    def forward_with_capture(self, x):
        caps = []
        hs = []
        for name, m in leaf_modules(self.model):
            if isinstance(m, QModuleMixin):
                hs.append(m.register_forward_hook(lambda mod, inp, out, name=name: caps.append((mod, name, inp[0], out))))
        try:
            with torch.no_grad():
                y = self.model(x)
        finally:
            for h in hs:
                h.remove()
        return y, caps

    def run(self):
        try:
            return self._run()
        finally:
            # whatever this history leaked must not reach the next one run by this process
            for reg, keep in ((tmod._global_forward_pre_hooks, self._pre0), (tmod._global_forward_hooks, self._post0)):
                for k in [k for k in reg if k not in keep]:
                    del reg[k]

    def _run(self):
        self._pre0 = set(tmod._global_forward_pre_hooks)
        self._post0 = set(tmod._global_forward_hooks)
        self.post({"act": "Init", "arch": self.sk["arch"] if isinstance(self.sk["arch"], dict) else list(self.sk["arch"]), "dtype": self.dtype_name, "nested": self.nested})
        for a in self.sk["prog"]:
            ev = {"act": a["a"], "args": a, "outcome": "ok"}
            try:
                getattr(self, "do_" + a["a"])(a, ev)
            except Exception as e:  # noqa: BLE001
                ev["outcome"] = type(e).__name__
                ev["msg"] = str(e)[:200]
            try:
                self.post(ev)
            except Exception as e:  # noqa: BLE001
                # the model can no longer be observed (state_dict(), a module attribute, a registry ... raises): an
                # observation in its own right, admitted by no action of the trace specification
                self.events.append({"act": "Crash", "args": a, "outcome": "observe:" + type(e).__name__, "msg": str(e)[:300], "after": ev.get("act"),
                                    "mods": [], "globals": {"pre_hooks": 0, "post_hooks": 0, "modes": 0}, "state_digest": ""})
                break
            if ev["outcome"] != "ok" and a["a"] not in ("RaiseIn",):
                break
        # leave no context open
        while self.ctxs:
            self.ctxs.pop().__exit__(None, None, None)
        return self.events

    # ---- actions ----
    def do_Quantize(self, a, ev):
        leaves = leaf_modules(self.model)
        sel = None
        if a["filter"] == "first":
            sel = [leaves[0][1]]
        elif a["filter"] == "last":
            sel = [leaves[-1][1]]
        before = {name: (digest(getattr(m, "weight", None)), digest(getattr(m, "bias", None)), id(m)) for name, m in leaves}
        kw = {"weights": qtypes[QT[a["wq"]]]}
        if a["aq"] != "none":
            kw["activations"] = qtypes[QT[a["aq"]]]
        self.qargs = (a, kw)
        quantize(self.model, modules=sel, **kw)
        after = leaf_modules(self.model)
        ev["float_mods"] = self.float_proj
        ev["preserved"] = [{"name": n, "weight_same": digest(getattr(m, "weight", None)) == before[n][0] if n in before else False,
                            "bias_same": digest(getattr(m, "bias", None)) == before[n][1] if n in before else False,
                            "same_object": id(m) == before[n][2] if n in before else False} for n, m in after]
        ev["names_same"] = [n for n, _ in after] == [n for n, _ in leaves]

    def do_Forward(self, a, ev):
        x = self.inputs[a["x"]]
        sd0 = state_digest(self.model)
        xd0 = digest(x)
        y, caps = self.forward_with_capture(x)
        with torch.no_grad():
            y2 = self.model(x)
        ev["out"] = out_proj(y)
        ev["out_again"] = out_proj(y2)
        ev["state_before"] = sd0
        ev["input_unchanged"] = digest(x) == xd0
        ev["recipes"] = [recipe_event(m, n, xi, yo) for (m, n, xi, yo) in caps]

    def do_EnterCalib(self, a, ev):
        c = Calibration(momentum=MOM[a["momentum"]], streamline=bool(a["streamline"]))
        c.__enter__()
        self.ctxs.append(c)

    def do_ReEnterCalib(self, a, ev):
        # the innermost open Calibration object is entered once more (`with c: ... with c: ...`)
        c = self.ctxs[-1]
        c.__enter__()
        self.ctxs.append(c)

    def _calib_forward(self, x, ev):
        obs = []
        hs = []

        # scales at the start of the batch (torch runs its global hooks before module-level hooks, so a
        # module-level pre-hook would already see the updated input scale)
        start = {name: (exact_scalar(m.input_scale), exact_scalar(m.output_scale), qname(m.activation_qtype))
                 for name, m in leaf_modules(self.model) if isinstance(m, QModuleMixin)}

        def pre(mod, inp, name):
            i = inp[0]
            rec = {"name": name, "aq": start[name][2], "insc_before": start[name][0], "outsc_before": start[name][1]}
            if isinstance(i, QBytesTensor):
                rec["adopt"] = exact_scalar(torch.max(i._scale))
            elif mod.activation_qtype is not None:
                rec["in_new"] = exact_scalar(absmax_scale(i, mod.activation_qtype))
            obs.append(rec)

        def post(mod, inp, out, name):
            rec = next(r for r in reversed(obs) if r["name"] == name and "insc_after" not in r)
            rec["insc_after"] = exact_scalar(mod.input_scale)
            rec["outsc_after"] = exact_scalar(mod.output_scale)
            rec["aq_after"] = qname(mod.activation_qtype)
            if start[name][2] != "none" and mod.activation_qtype is not None:
                raw = deq(mod.qforward(inp[0]))
                rec["out_new"] = exact_scalar(absmax_scale(raw, mod.activation_qtype, axis=None))
                smax = float(torch.finfo(mod.activation_qtype.dtype).max) if mod.activation_qtype.is_floating_point else 127.0
                rec["out_saturates"] = bool(raw.abs().max().float() > mod.output_scale.float() * smax * (1 + 2.0 ** -6)) if raw.numel() else False
        for name, m in leaf_modules(self.model):
            if isinstance(m, QModuleMixin):
                # registered BEFORE torch's global hooks run? no: global hooks run first, module hooks after.
                hs.append(m.register_forward_pre_hook(lambda mod, inp, name=name: pre(mod, inp, name), prepend=True))
                hs.append(m.register_forward_hook(lambda mod, inp, out, name=name: post(mod, inp, out, name)))
        try:
            with torch.no_grad():
                y = self.model(x)
            ev["out"] = out_proj(y)
        finally:
            for h in hs:
                h.remove()
            ev["calib"] = obs
            ev["momenta"] = [c.momentum for c in self.ctxs]
            ev["n_ctx"] = len(self.ctxs)

    def batch(self, name):
        if name != "bone":
            return self.batches[name]
        # absmax exactly equal to the storage maximum of the activation qtype: the computed scale is exactly 1.0
        aq = next((m.activation_qtype for _, m in leaf_modules(self.model) if isinstance(m, QModuleMixin) and m.activation_qtype is not None), None)
        top = 127.0 if aq is None or not aq.is_floating_point else float(torch.finfo(aq.dtype).max)
        x = self._bone_raw.clone().float()
        x = x / x.abs().max() * (top / 2)
        x.reshape(-1)[0] = top
        return x.to(self.dtype)

    def do_CalibBatch(self, a, ev):
        self._calib_forward(self.batch(a["batch"]), ev)

    def do_RaiseIn(self, a, ev):
        leaves = leaf_modules(self.model)
        k = min(a["k"], len(leaves)) - 1

        def boom(mod, inp):
            raise RuntimeError("verif: injected failure")
        h = leaves[k][1].register_forward_pre_hook(boom)
        try:
            self._calib_forward(self.batch(a["batch"]), ev)
            ev["raised"] = False
        except RuntimeError as e:
            ev["raised"] = "injected" in str(e)
            import sys as _s
            et = _s.exc_info()
            while self.ctxs:                      # what the `with` statements would do while unwinding
                self.ctxs.pop().__exit__(*et)
        finally:
            h.remove()

    def do_ExitCalib(self, a, ev):
        self.ctxs.pop().__exit__(None, None, None)

    def do_Freeze(self, a, ev):
        xs = [self.inputs["x1"], self.inputs["x2"]]
        with torch.no_grad():
            before = [out_proj(self.model(x)) for x in xs]
        pb = project_model(self.model)
        # the float tensors freeze() reads: still referenced from here afterwards, they must not have been written
        held = [(m.weight, digest(m.weight)) for _, m in leaf_modules(self.model)
                if isinstance(m, QModuleMixin) and not isinstance(m.weight, QTensor)]
        freeze(self.model)
        with torch.no_grad():
            after = [out_proj(self.model(x)) for x in xs]
        ev["out_before"] = before
        ev["out_after"] = after
        ev["mods_before"] = pb
        ev["float_weights_unchanged"] = all(digest(w) == d for w, d in held)

    def do_OptStep(self, a, ev):
        x = self.inputs["x1"]
        for p in self.model.parameters():
            p.grad = None
        y = deq(self.model(x))
        y.float().sum().backward()
        grads = []
        for name, m in leaf_modules(self.model):
            for pn, p in m.named_parameters(recurse=False):
                grads.append({"name": name, "param": pn, "has_grad": p.grad is not None, "frozen": isinstance(m, QModuleMixin) and m.frozen and pn == "weight",
                              "requires_grad": bool(p.requires_grad)})
            if isinstance(m, QModuleMixin):
                for bn in ("input_scale", "output_scale"):
                    b = getattr(m, bn)
                    grads.append({"name": name, "param": bn, "has_grad": b.grad is not None, "frozen": False, "requires_grad": bool(b.requires_grad), "scale": True})
        # the update itself, in the styles optimizers and training scripts use: in place under no_grad, through .data (no
        # version bump), or by copying new values into the parameter
        via = a.get("via", "inplace")
        with torch.no_grad():
            for p in self.model.parameters():
                if p.grad is not None and not isinstance(p.data, QTensor):
                    step = -0.05 * p.grad.sign().to(p.dtype) * 0.25
                    if via == "data":
                        p.data.add_(step)
                    elif via == "copy":
                        p.data.copy_(p.data + step)
                    else:
                        p.add_(step)
        for p in self.model.parameters():
            p.grad = None
        ev["grads"] = grads

    def do_Save(self, a, ev):
        sd = self.model.state_dict()
        ev["sd_before"] = sd_projection(sd)
        ser = a["ser"]
        if ser in ("pickle", "weights_only"):
            buf = io.BytesIO()
            torch.save(sd, buf)
            buf.seek(0)
            sd = torch.load(buf, weights_only=(ser == "weights_only"))
        elif ser == "safetensors":
            with tempfile.TemporaryDirectory() as d:
                fn = os.path.join(d, "m.safetensors")
                safe_save(sd, fn)
                sd = safe_load(fn)
        else:
            sd = copy.copy(sd)
        self.saved = sd
        with torch.no_grad():
            self.saved_out = [out_proj(self.model(x)) for x in (self.inputs["x1"], self.inputs["x2"])]
        self.saved_proj = project_model(self.model)
        ev["sd_after"] = sd_projection(sd)
        ev["sd_same"] = sd_projection(sd) == ev["sd_before"]          # equal as a mapping (key order is not part of the claim)

    def do_Load(self, a, ev):
        new, _ = build(self.sk["arch"], self.dtype, 99, self.nested)
        target = a["target"]
        sd = copy.copy(self.saved)
        if target == "requantize":
            requantize(new, sd)
        else:
            if target == "default":
                quantize(new)
            elif target == "otherq":
                qa, kw = self.qargs
                other = {"qint8": "qint4", "qfloat8": "qint8", "qint4": "qfloat8", "qint2": "qint8", "qfloat8_e5m2": "qint8", "qfloat8_e4m3fn": "qint4"}[qa["wq"]]
                kw2 = dict(kw, weights=qtypes[other])
                leaves = leaf_modules(new)
                sel = [leaves[0][1]] if qa["filter"] == "first" else [leaves[-1][1]] if qa["filter"] == "last" else None
                quantize(new, modules=sel, **kw2)
            else:
                qa, kw = self.qargs
                leaves = leaf_modules(new)
                sel = None
                if qa["filter"] == "first":
                    sel = [leaves[0][1]]
                elif qa["filter"] == "last":
                    sel = [leaves[-1][1]]
                quantize(new, modules=sel, **kw)
            new.load_state_dict(sd)
        self.model = new
        with torch.no_grad():
            ev["out_loaded"] = [out_proj(self.model(x)) for x in (self.inputs["x1"], self.inputs["x2"])]
        ev["out_saved"] = self.saved_out
        ev["mods_saved"] = self.saved_proj
        ev["sd_resaved"] = sd_projection(self.model.state_dict())
        ev["sd_loaded_from"] = sd_projection(self.saved)

    def do_ForeignBatch(self, a, ev):
        other, xshape = build(["Linear", "Other", "Linear"], self.dtype, 123, False)
        kw = dict(self.qargs[1]) if self.qargs else {"weights": qtypes["qint8"]}
        kw.setdefault("activations", qtypes["qint8"])
        quantize(other, **kw)
        before = project_model(self.model)
        g = torch.Generator().manual_seed(77)
        with torch.no_grad():
            other(torch.randn(xshape, generator=g).to(self.dtype) * 5)
        ev["ours_unchanged"] = project_model(self.model) == before
        ev["foreign_updated"] = any(isinstance(m, QModuleMixin) and float(m.output_scale) != 1.0 for _, m in leaf_modules(other))

    def do_LibCall(self, a, ev):
        from optimum.quanto import quantize_weight
        g = torch.Generator().manual_seed(5)
        sd0 = state_digest(self.model)
        ok = True
        calls = 0
        for qt in ("qint8", "qfloat8_e4m3fn", "qfloat8_e5m2", "qint4", "qint2"):
            for axis in (0, -1):
                t = torch.randn(8, 32, generator=g).to(self.dtype)
                t = t.t().contiguous().t() if axis == -1 else t
                d0, st0 = digest(t), t.stride()
                q = quantize_weight(t, qtypes[qt], axis, 8 if qtypes[qt].bits < 8 else None)
                q.dequantize()
                ok = ok and digest(t) == d0 and t.stride() == st0
                calls += 1
        for qt in ("qint8", "qfloat8_e4m3fn", "qfloat8_e5m2"):
            t = torch.randn(4, 6, generator=g).to(self.dtype)
            sc = absmax_scale(t, qtypes[qt])
            d0, s0 = digest(t), digest(sc)
            quantize_activation(t, qtypes[qt], sc).dequantize()
            ok = ok and digest(t) == d0 and digest(sc) == s0
            calls += 1
        ev["inputs_unchanged"] = bool(ok)
        ev["lib_calls"] = calls
        ev["state_before"] = sd0

    def do_DeepCopy(self, a, ev):
        with torch.no_grad():
            before = [out_proj(self.model(x)) for x in (self.inputs["x1"], self.inputs["x2"])]
        self.model = copy.deepcopy(self.model)
        with torch.no_grad():
            after = [out_proj(self.model(x)) for x in (self.inputs["x1"], self.inputs["x2"])]
        ev["out_before"], ev["out_after"] = before, after


    def do_ToDevice(self, a, ev):
        with torch.no_grad():
            before = [out_proj(self.model(x)) for x in (self.inputs["x1"], self.inputs["x2"])]
        pb = project_model(self.model)
        self.model = self.model.to(torch.device("cpu"))
        with torch.no_grad():
            after = [out_proj(self.model(x)) for x in (self.inputs["x1"], self.inputs["x2"])]
        ev["out_before"], ev["out_after"] = before, after
        ev["mods_before"] = pb


def run_skeleton(sk, dtype_name, nested):
    return Runner(sk, dtype_name, nested).run()


def _job(job):
    sk, dt, nested = job
    r = run_isolated(run_skeleton, sk, dt, nested, timeout=300)
    if "ok" in r:
        return r["ok"]
    return [{"act": "Init", "arch": sk["arch"] if isinstance(sk["arch"], dict) else list(sk["arch"]), "dtype": dt, "nested": nested, "mods": [], "globals": {"pre_hooks": 0, "post_hooks": 0, "modes": 0}, "state_digest": ""},
            {"act": "Crash", "args": {"a": "Crash"}, "outcome": r.get("exc") or ("crash:%s" % r.get("crash")), "msg": (r.get("msg") or "")[:300] + (r.get("tb") or "")[-600:],
             "prog": sk["prog"], "mods": [], "globals": {"pre_hooks": 0, "post_hooks": 0, "modes": 0}, "state_digest": ""}]


def main():
    req = json.load(open(sys.argv[1]))
    jobs = []
    for i, sk in enumerate(req["skeletons"]):
        for dt in req.get("dtypes", ["float32"]):
            jobs.append((sk, dt, bool(i % 2)))
    # warm-up before forking (whatever it raises is reported by the isolated histories below)
    _warm = ({"arch": ["Linear", "Other", "Linear"], "prog": [{"a": "Quantize", "wq": "qint4", "aq": "qint8", "filter": "all"},
                                                                  {"a": "EnterCalib", "momentum": "m50", "streamline": False}, {"a": "CalibBatch", "batch": "b1"},
                                                                  {"a": "ExitCalib"}, {"a": "Freeze"}, {"a": "Forward", "x": "x1"}]}, "float32", False)
    try:
        run_skeleton(*_warm)
    except Exception:  # noqa: BLE001
        pass
    import multiprocessing as mp
    with mp.get_context("fork").Pool(req.get("procs", 12)) as pool:
        traces = pool.map(_job, jobs, chunksize=4)
    json.dump({"traces": traces}, open(sys.argv[2], "w"))


if __name__ == "__main__":
    main()
