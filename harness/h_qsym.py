"""Replays TLC-generated lattice cases of QSym on the real symmetric quantizer and
records one event per real tensor for Trace_QSym."""
import json
import sys
from fractions import Fraction

import qenv  # noqa: F401
import torch
from exact import FMT, FMT_NAME, codes_of, from_fractions, pow2, to_fractions
from total import total
from optimum.quanto import qtypes, quantize_activation
from optimum.quanto.tensor.quantizers import SymmetricQuantizer

BAD = -2000000001  # marks a value that is not an integer number of fine units (TLC rejects it)


def fine_ints(t, unit_list):
    """tensor values / unit (per element) as ints, BAD if not integral or not finite"""
    out = []
    for v, u in zip(to_fractions(t), unit_list):
        if isinstance(v, str):
            out.append(BAD)
            continue
        q = v / u
        out.append(int(q) if q.denominator == 1 and abs(q) < 2 ** 31 else BAD)
    return out


def layout(x, variant):
    """same logical values, different rank / strides"""
    n = x.numel()
    if variant == 1 and n % 2 == 0:
        return x.reshape(2, n // 2)
    if variant == 2 and n % 2 == 0:
        return x.reshape(n // 2, 2).t().contiguous().t()       # non-contiguous
    if variant == 3 and n % 4 == 0:
        return x.reshape(2, n // 4, 2).transpose(0, 2).contiguous().transpose(0, 2)
    return x


class Unrepresentable(Exception):
    """the numbers TLC chose do not exist in this float format (decided before any call into quanto)"""


def run_elem_batch(qt, w, fe, fmt, k, ns, variant, route):
    dtype = FMT[fmt]
    unit = pow2(k + fe)
    try:
        x = from_fractions([Fraction(n) * unit for n in ns], dtype)
        x = layout(x, variant)
        scale = from_fractions([pow2(k)], dtype).reshape(())
    except ValueError as e:
        raise Unrepresentable(str(e))
    return _elem_batch(qt, w, fe, fmt, k, ns, route, x, scale, unit)


@total("SymQ", describe=lambda qt, w, fe, fmt, k, ns, route, x, scale, unit: {"qt": qt, "fmt": fmt, "k": k, "route": route, "shape": list(x.shape), "n": len(ns)})
def _elem_batch(qt, w, fe, fmt, k, ns, route, x, scale, unit):
    qtype = qtypes[qt]
    if route == "activation":
        q = quantize_activation(x, qtype, scale)
    else:
        q = SymmetricQuantizer.apply(x, qtype, None, scale)
    dq = q.dequantize()
    q2 = quantize_activation(dq, qtype, scale)
    units = [unit] * len(ns)
    return {"act": "SymQ", "qt": qt, "w": w, "fmt": fmt, "k": k, "axis": "none", "route": route,
            "shape": list(x.shape), "contiguous": bool(x.is_contiguous()),
            "ns": ns, "codes": codes_of(q._data, qt), "dq": fine_ints(dq, units), "codes2": codes_of(q2._data, qt),
            "out_shape": list(q.shape), "out_dtype": FMT_NAME.get(q.dtype, str(q.dtype)), "out_qtype": q.qtype.name,
            "dq_shape": list(dq.shape), "dq_dtype": FMT_NAME.get(dq.dtype, str(dq.dtype))}


def run_tensor_case(c, fmt, k0, variant):
    qt, w, fe = c["qt"], c["w"], c["fe"]
    dtype = FMT[fmt]
    shape, axis = c["shape"], c["axis"]
    units = [pow2(k0 + c["ks"][si] + fe) for si in c["sidx"]]
    vals = [Fraction(n) * u for n, u in zip(c["ns"], units)]
    try:
        x = from_fractions(vals, dtype, shape)
        if variant == 1:   # non-contiguous memory layout, same logical tensor
            x = x.transpose(0, -1).contiguous().transpose(0, -1)
        sshape = [1] * len(shape)
        sshape[0 if axis == 0 else -1] = len(c["ks"])
        scale = from_fractions([pow2(k0 + kk) for kk in c["ks"]], dtype, sshape)
    except ValueError as e:
        raise Unrepresentable(str(e))
    return _tensor_case(c, fmt, k0, qt, w, axis, x, scale, units)


@total("SymQ", describe=lambda c, fmt, k0, qt, w, axis, x, scale, units: {"qt": qt, "fmt": fmt, "k": k0, "axis": axis, "shape": list(x.shape), "route": "quantizer-per-axis"})
def _tensor_case(c, fmt, k0, qt, w, axis, x, scale, units):
    qtype = qtypes[qt]
    q = SymmetricQuantizer.apply(x, qtype, axis, scale)
    dq = q.dequantize()
    q2 = SymmetricQuantizer.apply(dq, qtype, axis, scale)
    return {"act": "SymQ", "qt": qt, "w": w, "fmt": fmt, "k": k0, "axis": axis, "route": "quantizer-per-axis",
            "shape": list(x.shape), "contiguous": bool(x.is_contiguous()), "ks": c["ks"],
            "ns": c["ns"], "codes": codes_of(q._data, qt), "dq": fine_ints(dq, units), "codes2": codes_of(q2._data, qt),
            "out_shape": list(q.shape), "out_dtype": FMT_NAME.get(q.dtype, str(q.dtype)), "out_qtype": q.qtype.name,
            "out_axis": q.axis, "tlc_codes_equal": None}


def main():
    req = json.load(open(sys.argv[1]))
    groups = {}
    for c in req["elem_cases"]:
        for fmt, k in c["reps"]:
            groups.setdefault((c["qt"], c["w"], c["fe"], fmt, k), []).append(c["n"])
    traces = []
    skipped = 0
    bsz = req.get("batch", 256)
    gi = 0
    for (qt, w, fe, fmt, k), ns in sorted(groups.items()):
        for i in range(0, len(ns), bsz):
            gi += 1
            try:
                ev = run_elem_batch(qt, w, fe, fmt, k, ns[i:i + bsz], gi % 4, "activation" if gi % 2 else "quantizer")
            except Unrepresentable:
                skipped += 1      # TLC's Representable and the real format disagree: machinery problem
                continue
            traces.append([ev])
    tcount = 0
    for c in req["tensor_cases"]:
        for fmt in ("float32", "float16", "bfloat16"):
            for k0 in req.get("tensor_k0", [-3, 2]):
                for variant in (0, 1):
                    try:
                        ev = run_tensor_case(c, fmt, k0, variant)
                    except Unrepresentable:
                        continue       # not representable in this format: skipped, counted
                    want = [[int(a), int(b)] for a, b in c["codes"]]
                    if ev["act"] != "Raised":
                        ev["tlc_codes_equal"] = ev["codes"] == want
                    traces.append([ev])
                    tcount += 1
    json.dump({"traces": traces, "unrepresentable_batches": skipped, "tensor_events": tcount}, open(sys.argv[2], "w"))


if __name__ == "__main__":
    main()
